#!/bin/sh
# Offline setup: nothing is fetched or compiled.  Parses every specification with SANY and runs the
# self-tests of the reference implementations (wire/) so that a broken framework is noticed here.
cd "$(dirname "$0")" || exit 2
export PYTHONPATH=/verif:/repo PYTHONDONTWRITEBYTECODE=1 PYTHONWARNINGS=ignore
mkdir -p evidence replays
rc=0
tmp=$(mktemp -d)
cp spec/*.tla "$tmp"/
# Suites.tla extends the generated registry module
/venv/bin/python -B -c "from checks.c14 import suites_data; open('$tmp/SuitesData.tla','w').write(suites_data())" || rc=1
for f in spec/*.tla; do
  b=$(basename "$f")
  case "$b" in Trace*) continue;; esac
  (cd "$tmp" && java -Djava.io.tmpdir="$tmp" -cp /opt/veriftools/tla/tla2tools.jar:/opt/veriftools/tla/CommunityModules-deps.jar tla2sany.SANY "$b" >"$tmp/sany.log" 2>&1) || { echo "SANY failed on $b"; tail -5 "$tmp/sany.log"; rc=1; }
done
rm -rf "$tmp"
/venv/bin/python -B -m wire.selftest || rc=1
exit $rc
