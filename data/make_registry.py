"""One-off generator of data/iana_tls_cipher_suites.json (the frozen registry copy used by C14/C01).
Sources: the two independent registries shipped in this sandbox (dpkt.ssl_ciphersuites, scapy's
_tls_cipher_suites); differences resolved by hand against the IANA "TLS Cipher Suites" registry as
remembered (RFC 6655 names 0xC0AA/0xC0AB TLS_PSK_DHE_*; RFC 2712 KRB5 export names use DES_CBC_40);
RFC 8442 (0xD001-0xD005) and RFC 8492 (0xC0B0-0xC0B3) entries added by hand, absent from both.
Not used at check time: the JSON file is the committed source of truth."""
import json, warnings
warnings.simplefilter("ignore")
import dpkt.ssl_ciphersuites as d
from scapy.layers.tls.crypto.suites import _tls_cipher_suites as s
reg = {}
for k, v in s.items():
    reg[k] = v
for k, v in d.BY_CODE.items():
    reg.setdefault(k, v.name)
hand = {
    0x0026: "TLS_KRB5_EXPORT_WITH_DES_CBC_40_SHA", 0x0029: "TLS_KRB5_EXPORT_WITH_DES_CBC_40_MD5",
    0x00FF: "TLS_EMPTY_RENEGOTIATION_INFO_SCSV", 0x5600: "TLS_FALLBACK_SCSV",
    0xC0AA: "TLS_PSK_DHE_WITH_AES_128_CCM_8", 0xC0AB: "TLS_PSK_DHE_WITH_AES_256_CCM_8",
    0xD001: "TLS_ECDHE_PSK_WITH_AES_128_GCM_SHA256", 0xD002: "TLS_ECDHE_PSK_WITH_AES_256_GCM_SHA384",
    0xD003: "TLS_ECDHE_PSK_WITH_AES_128_CCM_8_SHA256", 0xD005: "TLS_ECDHE_PSK_WITH_AES_128_CCM_SHA256",
    0xC0B0: "TLS_ECCPWD_WITH_AES_128_GCM_SHA256", 0xC0B1: "TLS_ECCPWD_WITH_AES_256_GCM_SHA384",
    0xC0B2: "TLS_ECCPWD_WITH_AES_128_CCM_SHA256", 0xC0B3: "TLS_ECCPWD_WITH_AES_256_CCM_SHA384",
}
reg.update(hand)
for k in [k for k, v in reg.items() if not v.startswith("TLS_") or v.endswith("_OLD") or "UNKNOWN" in v or "SSL" in v]:
    del reg[k]
json.dump({f"{k:04X}": v for k, v in sorted(reg.items())}, open("data/iana_tls_cipher_suites.json", "w"), indent=0)
print(len(reg))
