"""C08 -- cutting the capture at any point only removes a suffix of the export.
Spec: ExportMonotone (TlsSession.tla) and ReleaseMonotone / ReleasedIsPrefix (Reasm.tla) are action properties /
invariants over ALL prefixes of every behaviour at once (each state of the graph is the cut-at-k run).
Conformance: for sampled TLC behaviours EVERY cut 0..N of the concrete capture is run through the working tree; the
per-direction exports must form a chain of prefixes ending in the full export (= what was sent); the hook traces of
the cut runs are validated against the record-layer and reassembly contracts (incomplete traces allowed)."""
import json
import random

from checks import c01, c05
from harness import runner, tlc
from harness.core import pool_map
from harness.tlsrun import build_tls_capture, observe_tls
from wire import tlsref as R
from wire.container import pcapng_bytes


def _one(job):
    sc = job
    try:
        cap, keylog, conns, flows = build_tls_capture(sc)
    except Exception:
        import traceback
        return dict(machinery=traceback.format_exc()[-1500:])
    kl = "\n".join(keylog) + "\n"
    c = conns[0]
    n = len(cap.pkts)
    prev = {(i, d): b"" for i in range(len(conns)) for d in "cs"}
    bad, runs = [], 0
    evs_last = None
    cuts = range(n + 1) if n <= 60 else sorted(set(range(0, n + 1, 2)) | {n})
    # secrets inside the capture: one secrets block per connection right before its first packet (a cut drops the blocks behind it)
    dsbs = None
    if sc.get("dsb_per_conn"):
        firsts = {}
        for i, m in enumerate(cap.meta):
            ci = getattr(m, "conn", None)
            if ci is not None:
                firsts.setdefault(ci, i)
        dsbs = [(firsts.get(ci, 0), ("\n".join(cn.keylog) + "\n").encode()) for ci, cn in enumerate(conns)]
    for k in cuts:
        if dsbs is None:
            res = runner.run_inproc(pcapng_bytes(cap.pkts[:k]), kl, opts=sc.get("opts", []), trace=(k == n or k % 7 == 3))
        else:
            res = runner.run_inproc(pcapng_bytes(cap.pkts[:k], dsbs=[(p_, t_) for p_, t_ in dsbs if p_ < k]), None, opts=sc.get("opts", []))
        runs += 1
        obs, o = observe_tls(res, conns, flows, sc.get("opts", []))
        if obs["crashed"]:
            bad.append(f"cut after packet {k}: run aborted: " + obs["exc"].strip().splitlines()[-1])
            break
        if obs["problems"]:
            bad.append(f"cut after packet {k}: output malformed: {obs['problems'][0]}")
            break
        for i, cn in enumerate(conns):
            got = obs["conns"][i] if len(obs["conns"]) > i else dict(c=b"", s=b"")
            for d in "cs":
                if not got[d].startswith(prev[(i, d)]):
                    bad.append(f"cut after packet {k}: connection {i} direction {d} export ({len(got[d])} bytes) does not extend the export of the previous cut "
                               f"({len(prev[(i, d)])} bytes): data was retracted or altered")
                if not cn.truth(d).startswith(got[d]):
                    bad.append(f"cut after packet {k}: connection {i} direction {d} export is not a prefix of the data sent (wrong, reordered or invented bytes)")
                prev[(i, d)] = got[d]
        if bad:
            break
        if res.events and k != n:
            evs_last = (k, res.events)
    if not bad and any(prev[(i, d)] != cn.truth(d) for i, cn in enumerate(conns) for d in "cs"):
        bad.append("full capture: export differs from the data sent")
    from harness.tracecheck import tls_truth
    out = dict(sc=sc, bad=bad, runs=runs, npk=n)
    if evs_last:
        out["events"] = [e for e in evs_last[1] if e["ev"] in ("decrypt", "keyswitch")]
        out["truth"] = tls_truth(c, sc["conns"][0]["shape"].get("hs_in_log", True))
        out["suite"] = sc["conns"][0]["suite"]
        out["ver"] = sc["conns"][0]["ver"]
    return out


class _C:
    pass


def _one_quic(job):
    """every cut 0..N of a QUIC capture: per direction the list of exported datagram payloads is a prefix of the list from the full capture,
    which equals the stream data sent"""
    from harness.quicrun import build_conn as qbuild, observed_dgrams
    from wire.capture import Capture, udp_capture
    from wire.l2l4 import mk_flow
    b, seed, params = job
    try:
        c, payload = qbuild(b, seed, params)
    except Exception:
        import traceback
        return dict(machinery=traceback.format_exc()[-1500:])
    fl = mk_flow(0, ipv=params.get("ipv", 4))
    cap = udp_capture([(fl, g.d, g.payload, g) for g in c.dgrams], cap=Capture(ts0=1_700_000_000_000_000, step=1009))
    kl = "\n".join(c.keylog) + "\n"
    truth = {d: [g.stream for g in c.dgrams if g.stream and g.d == d] for d in "cs"}
    prev = {"c": [], "s": []}
    bad, runs = [], 0
    for k in range(len(cap.pkts) + 1):
        res = runner.run_inproc(pcapng_bytes(cap.pkts[:k]), kl)
        runs += 1
        if res.crashed:
            bad.append(f"cut after datagram {k}: run aborted: " + res.exc.strip().splitlines()[-1])
            break
        got, probs = observed_dgrams(res, fl)
        if probs:
            bad.append(f"cut after datagram {k}: output malformed: {probs[0]}")
            break
        for d in "cs":
            gl = [pl for dd, _ts, pl in (got or []) if dd == d]
            if gl[:len(prev[d])] != prev[d]:
                bad.append(f"cut after datagram {k}: direction {d} export does not extend the export of the previous cut (retracted, altered or attributed to the other direction)")
            if gl != truth[d][:len(gl)]:
                bad.append(f"cut after datagram {k}: direction {d} export is not a prefix of the stream data sent")
            prev[d] = gl
        if bad:
            break
    if not bad and prev != truth:
        bad.append("full capture: export differs from the stream data sent")
    return dict(b=b, seed=seed, params=params, bad=bad, runs=runs, npk=len(cap.pkts))


def run(chk):
    quick = chk.tier == "quick"
    rng = random.Random(chk.seed)
    r = tlc.run("TlsSession", dict(c01.BASE, MaxApp="3"), invariants=["ExportedIsPrefix", "NeverGarbage"], properties=["ExportMonotone"],
                view="View", timeout=600)
    chk.tlc("TlsSession ExportMonotone", r)
    r = tlc.run("Reasm", dict(c05.BASE), invariants=["ReleasedIsPrefix"], properties=["ReleaseMonotone"], view="View", timeout=600)
    chk.tlc("Reasm ReleaseMonotone", r)
    r = tlc.run("TlsSession", dict(c01.BASE, MaxApp="4", EmitOn="TRUE"), invariants=["Emit"], simulate=(30 if quick else 400, 30),
                workers=1, seed=chk.seed, timeout=600)
    chk.tlc("TlsSession generate", r)
    behs = list({json.dumps(b, sort_keys=True): b for b in r.printed}.values())
    rng.shuffle(behs)
    jobs = []
    for b in behs[: 70 if quick else 1000]:
        cd = c01.conn_desc(b, rng)
        for a in cd["app"]:
            a[1] = min(a[1], 3000)
        cd["mss"] = rng.choice([None, 64, 200, 1460])
        jobs.append(dict(conns=[cd], tsjitter=rng.choice([0, 0, rng.randrange(1, 1 << 30)])))
    # cuts inside reordered / duplicated flights
    # (a cut between a reordered segment and the one that fills the hole is the interesting place: reordered schedules first,
    #  every cipher-state kind -- an out-of-order record is exported only by kinds that can decrypt it out of order)
    nre = 0
    for st in [(1, 2), (2, 1, 1), (2, 1)]:
        bl = c05.gen_behaviours(chk, st, dict(MaxHeld="2", MaxDup="1"), 30 if quick else 200, seed=chk.seed)
        rng.shuffle(bl)
        reordered = [b for b in bl if [h["st"] for h in b["hist"] if not h["dup"]] != sorted(h["st"] for h in b["hist"] if not h["dup"])]
        rest = [b for b in bl if b not in reordered]
        for i, b in enumerate(reordered[: 40 if quick else 400] + rest[: 8 if quick else 100]):
            sc = c05.scenario(b, st, c05.KINDS[i % len(c05.KINDS)], rng.randrange(1 << 30))
            if sc is not None:
                nre += b in reordered
                jobs.append(sc)
    chk.extra["reordered_schedules_cut_everywhere"] = nre
    # sessions that negotiated DEFLATE compression (RFC 3749; TLExport inflates them; not RC4): every cut exports a prefix there too
    for i in range(6 if quick else 80):
        ver, suite = [k for k in c05.KINDS if k[1] not in (0x0005,) and k[0] != R.TLS13][i % 5]
        jobs.append(dict(conns=[dict(ver=ver, suite=suite, seed=rng.randrange(1 << 30), shape=dict(compression=1), mss=rng.choice([None, 150]),
                                     app=[["c", 60], ["s", rng.choice([400, 3000])], ["s", 0], ["c", 9], ["s", 77]])]))
    # two connections whose secrets travel in the capture, one secrets block per connection (a later block must not retract what an earlier one made exportable)
    for i in range(6 if quick else 60):
        ka, kb = c05.KINDS[i % len(c05.KINDS)], c05.KINDS[(i * 3 + 1) % len(c05.KINDS)]
        cds = [dict(ver=k[0], suite=k[1], seed=rng.randrange(1 << 30), shape={}, app=[["c", 40], ["s", rng.choice([300, 2000])], ["c", 5]], flow=dict(idx=j),
                    mss=rng.choice([None, 200])) for j, k in enumerate((ka, kb))]
        jobs.append(dict(conns=cds, dsb_per_conn=True))
    results = pool_map(_one, jobs, chunksize=1)
    truns = []
    for res in results:
        if "machinery" in res:
            raise Exception("replay failed in the harness: " + res["machinery"])
        chk.evaluations += res["runs"]
        chk.distinct.add(json.dumps(res["sc"], sort_keys=True)[:3000])
        chk.sample(dict(version=R.VNAME[res["sc"]["conns"][0]["ver"]], suite=hex(res["sc"]["conns"][0]["suite"]), packets=res["npk"],
                        cuts_run=res["runs"]), limit=3)
        for b in res["bad"]:
            chk.violation(b, dict(scenario=res["sc"], findings=res["bad"]))
        if res.get("events"):
            from harness.tlsrun import suites
            c = _C()
            c.ver, c.suite = res["ver"], suites()[res["suite"]]
            truns.append(dict(conn=c, events=res["events"], truth=res["truth"], complete=False, sc=res["sc"]))
    from harness.tracecheck import validate_tls
    validate_tls(chk, truns)
    # QUIC: behaviours of Quic.tla (handshake shapes, 0.5-RTT data, a client Finished / NewSessionTicket-like CRYPTO-only datagram after the
    # peer's stream data, key updates), every cut
    from checks import c02
    qb = c02.gen(chk, dict(MaxApp="3", Splits='{<<1>>,<<2,1>>}'), 12 if quick else 150, chk.seed + 9)
    qb += c02.gen(chk, dict(SuiteSet='{"1301","1303"}', OfferFirst='{"same"}', Splits='{<<1>>}', Retries="{FALSE}", ZeroRtts="{FALSE}", MaxApp="4", MaxGen="3"), 6 if quick else 80, chk.seed + 10)
    qb = [b for b in qb if not b["kf"]]
    rng.shuffle(qb)
    nq = 0
    for res in pool_map(_one_quic, [(b, rng.randrange(1 << 30), dict(c_cid_len=rng.choice([0, 8]), s_cid_len=8, pnlen={"c": 2, "s": 2}, ipv=rng.choice([4, 6])))
                                    for b in qb[: 60 if quick else 1200]], chunksize=1):
        if "machinery" in res:
            raise Exception("replay failed in the harness: " + res["machinery"])
        chk.evaluations += res["runs"]
        nq += 1
        chk.distinct.add(json.dumps(["quic", res["seed"]]))
        for b_ in res["bad"]:
            chk.violation("QUIC " + b_, dict(behaviour=res["b"], seed=res["seed"], params=res["params"], findings=res["bad"]))
    chk.extra["quic_captures_cut_everywhere"] = nq
    chk.extra["captures"] = len(jobs)
    chk.rule = ("captures = TLC behaviours of TlsSession (all versions/families/handshake shapes, <= 4 application records) with a seeded "
                "segmentation plus Reasm schedules; for each capture every cut position 0..N (every second one above 60 packets) is a "
                "separate run; evaluations = runs; distinct = distinct captures")
    chk.assumptions += ["a cut is a cut between captured packets (a file truncated inside a block is not a capture cut)"]


def replay(chk, path):
    obj = json.load(open(path))
    r = _one(obj["scenario"])
    print(json.dumps(dict(bad=r.get("bad")), indent=1))
    return 1 if r.get("bad") else 0
