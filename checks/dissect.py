"""Datagram layouts of spec/Dissect.tla against the real dissector (quic_dissector.extract_quic_packet driven by the loop of
QuicSession.handle_packet).  Every symbol sequence TLC prints is built with the reference encoders and real header protection
(wire/quicref.py; AES and ChaCha20 masks) under fresh random keys; the real function is called as the session calls it and what it
returns is compared field by field: type, version, both connection IDs with their length bytes, token with its length bytes, the Length
field (raw and value), the unprotected first byte, the packet number field, the protected payload, the key phase, the rest of the datagram.
The loop variant of the specification (the rest strictly shrinks, ends empty) is checked on every call, on well-formed and on damaged datagrams."""
import contextlib
import io
import json
import random
import signal
import struct
from types import SimpleNamespace

from wire import quicref as Q

TYPE_BITS = {"initial": 0, "zrtt": 1, "hs": 2, "retry": 3}


class Hang(Exception):
    pass


def _alarm(*_a):
    raise Hang()


def _rb(rng, n):
    return bytes(rng.getrandbits(8) for _ in range(n))


def build(seq, zeros, rng):
    """-> (datagram, expected packets, isserver, guessed dcid, keys dict for the dissector, ciphersuite bytes)"""
    isserver = rng.random() < 0.5
    d = "server" if isserver else "client"
    suite = rng.choice([0x1301, 0x1302, 0x1303])
    ks = {"initial": Q.Keys(0x1301, _rb(rng, 32)), "hs": Q.Keys(suite, _rb(rng, 48 if suite == 0x1302 else 32)),
          "zrtt": Q.Keys(suite, _rb(rng, 48 if suite == 0x1302 else 32)), "short": Q.Keys(suite, _rb(rng, 48 if suite == 0x1302 else 32))}
    keys = {f"{d}_initial_hp": ks["initial"].hp, f"{d}_handshake_hp": ks["hs"].hp, "client_early_hp": ks["zrtt"].hp, f"{d}_application_hp": ks["short"].hp}
    other = "client" if isserver else "server"
    for nm in ("initial", "handshake", "application"):          # the other direction's keys are present and different
        keys[f"{other}_{nm}_hp"] = _rb(rng, len(keys[f"{d}_{nm}_hp"]))
    guessed = None
    dgram, exp = b"", []
    for s in seq:
        t = s["t"]
        dcid, scid = _rb(rng, s["dl"]), _rb(rng, s["sl"])
        if t == "short":
            guessed = dcid
        pn = rng.randrange(1 << (8 * s["pn"]))
        fixed = 0x40
        if t in ("initial", "zrtt", "hs"):
            token = _rb(rng, s["tl"]) if t == "initial" else b""
            reserved = 0
            first = 0x80 | fixed | (TYPE_BITS[t] << 4) | (reserved << 2) | (s["pn"] - 1)
            hdr = bytes([first]) + struct.pack("!I", 1) + bytes([len(dcid)]) + dcid + bytes([len(scid)]) + scid
            tlb = b""
            if t == "initial":
                tlb = Q.varint(len(token), s["tw"])
                hdr += tlb + token
            lnb = Q.varint(s["pn"] + s["pay"], s["lw"])
            hdr += lnb
            short = False
        elif t == "short":
            phase, spin = rng.getrandbits(1), rng.getrandbits(1)
            first = fixed | (spin << 5) | (phase << 2) | (s["pn"] - 1)
            hdr = bytes([first]) + dcid
            short = True
        elif t == "retry":
            tok = _rb(rng, s["tl"])
            pkt = Q.retry_packet(_rb(rng, 8), dcid, scid, tok, first=0xF0 | rng.getrandbits(4))
            exp.append(dict(t="retry", version=b"\x00\x00\x00\x01", dcid=dcid, scid=scid, dcid_len=bytes([len(dcid)]), scid_len=bytes([len(scid)]),
                            retry_token=tok, retry_integ_tag=pkt[-16:], first_byte=pkt[:1], n=len(pkt)))
            dgram += pkt
            continue
        else:
            pkt = Q.version_negotiation(dcid, scid, versions=tuple(rng.getrandbits(32) | 1 for _ in range(s["tl"])))
            exp.append(dict(t="vn", version=b"\x00" * 4, dcid=dcid, scid=scid, dcid_len=bytes([len(dcid)]), scid_len=bytes([len(scid)]), n=len(pkt)))
            dgram += pkt
            continue
        k = ks[t]
        pnb = pn.to_bytes(s["pn"], "big")
        ct = _rb(rng, s["pay"])                       # the dissector does not open the payload: any bytes of the right length
        sample = (pnb + ct)[4:20]
        m = k.mask(sample)
        pfirst = hdr[0] ^ (m[0] & (0x1F if short else 0x0F))
        pnp = bytes(a ^ b for a, b in zip(pnb, m[1:1 + s["pn"]]))
        pkt = bytes([pfirst]) + hdr[1:] + pnp + ct
        e = dict(t=t, dcid=dcid, first_byte=hdr[:1], packet_num=pnb, payload=ct, n=len(pkt))
        if short:
            e.update(key_phase=phase)
        else:
            e.update(version=b"\x00\x00\x00\x01", scid=scid, dcid_len=bytes([len(dcid)]), scid_len=bytes([len(scid)]),
                     packet_len=(s["pn"] + s["pay"]).to_bytes(s["lw"], "big"), packet_len_bytes=lnb)
            if t == "initial":
                e.update(token=token, token_len=len(token), token_len_bytes=tlb)
        exp.append(e)
        dgram += pkt
    dgram += b"\x00" * zeros
    return dgram, exp, isserver, guessed, keys, struct.pack("!H", suite)


def dissect_all(dgram, isserver, guessed, keys, suite, limit=5.0):
    """the loop of QuicSession.handle_packet; -> (packets, why-not-terminating or None)"""
    from tlexport.quic.quic_dissector import extract_quic_packet
    pkt = SimpleNamespace(tls_data=dgram, timestamp=1.5)
    out = []
    signal.signal(signal.SIGALRM, _alarm)
    signal.setitimer(signal.ITIMER_REAL, limit)
    try:
        while len(pkt.tls_data) != 0:
            before = len(pkt.tls_data)
            with contextlib.redirect_stdout(io.StringIO()):
                got, pkt = extract_quic_packet(in_packet=pkt, isserver=isserver, guessed_dcid=guessed, keys=keys, ciphersuite=suite)
            out.extend(got)
            if len(pkt.tls_data) >= before:
                return out, f"an iteration of the dissector loop left {len(pkt.tls_data)} of {before} bytes (no progress)"
    except Hang:
        return out, f"the dissector loop did not terminate within {limit} s"
    finally:
        signal.setitimer(signal.ITIMER_REAL, 0)
    return out, None


def _b(x):
    if isinstance(x, int):
        return bytes([x])
    return bytes(x) if isinstance(x, (bytes, bytearray)) else x


def compare(got, exp):
    from tlexport.quic.quic_packet import QuicPacketType as T
    tmap = {"initial": T.INITIAL, "zrtt": T.RTT_O, "hs": T.HANDSHAKE, "retry": T.RETRY, "vn": T.VERSION_NEG, "short": T.RTT_1}
    if len(got) != len(exp):
        return f"{len(got)} packets returned, the datagram holds {len(exp)}"
    for i, (g, e) in enumerate(zip(got, exp)):
        if g.packet_type != tmap[e["t"]]:
            return f"packet {i}: type {g.packet_type}, built {e['t']}"
        for k, v in e.items():
            if k in ("t", "n"):
                continue
            gv = getattr(g, k, "<missing>")
            if (gv if isinstance(v, int) else _b(gv)) != v:
                return f"packet {i} ({e['t']}): {k} = {_b(gv)!r:.80}, built {v!r:.80}"
    return None


def job(arg):
    items, seed, isflag = arg
    rng = random.Random(seed)
    bad, n = [], 0
    for it in items:
        seq, zeros = it["seq"], it["zeros"]
        dgram, exp, isserver, guessed, keys, suite = build(seq, zeros, rng)
        if guessed is None:
            guessed = _rb(rng, rng.choice([0, 8]))
        n += 1
        try:
            got, why = dissect_all(dgram, isserver, guessed, keys, suite)
        except Exception as ex:                                                       # the session does not catch around this call
            bad.append((it, dgram.hex(), f"the dissector raised {type(ex).__name__}: {ex}"))
            continue
        why = why or compare(got, exp)
        if why:
            bad.append((it, dgram.hex(), why))
        # damaged copies of the same datagram: the loop must terminate and make progress whatever the bytes are
        for _ in range(2):
            b = bytearray(dgram)
            op = rng.random()
            if op < 0.4:
                b[rng.randrange(len(b))] = rng.getrandbits(8)
            elif op < 0.7:
                del b[rng.randrange(1, len(b)):]
            elif op < 0.85:
                b[0] = rng.getrandbits(8)
            else:
                b += _rb(rng, rng.randint(1, 30))
            n += 1
            try:
                _g, why = dissect_all(bytes(b), isserver, guessed, keys, suite, limit=2.0)
            except Exception as ex:
                why = f"the dissector raised {type(ex).__name__}: {ex} (the session does not catch around this call)"
            if why:
                bad.append((it, bytes(b).hex(), "damaged datagram: " + why))
            if len(bad) > 40:
                return bad, n
    return bad, n


def consts(full):
    if full == "single":
        return dict(MaxPackets="1", CidLens="{0,1,8,20}", TokLens="{0,5,70}", Widths="{1,2,4,8}", PnLens="1..4", Pays="{19,20,70,1200}", Zeros="{0,7}")
    return dict(MaxPackets=full, CidLens="{0,8}", TokLens="{0,5}", Widths="{1,2}", PnLens="{1,4}", Pays="{20,70}", Zeros="{0,7}")


INVS = ["EveryPacketConsumes", "EveryByteOnce", "OnlyLastOpenEnded", "SampleInside", "LengthCovers", "ZerosOnlyBehindLength"]


def run(chk, pid="C02"):
    from harness import tlc
    from harness.core import pool_map
    quick = chk.tier == "quick"
    rng = random.Random(chk.seed + 77)
    r = tlc.run("Dissect", dict(consts("single"), EmitOn="FALSE"), invariants=INVS, properties=["RestStrictlyDecreases"], view="View", timeout=900)
    chk.tlc("Dissect single packets (all layouts)", r)
    r = tlc.run("Dissect", dict(consts("2" if quick else "3"), EmitOn="FALSE"), invariants=INVS, properties=["RestStrictlyDecreases"], view="View", timeout=3000)
    chk.tlc("Dissect coalesced datagrams of <= %d packets" % (2 if quick else 3), r)
    g1 = tlc.run("Dissect", dict(consts("single"), EmitOn="TRUE"), invariants=["Emit"], workers=1, view="View", timeout=900)
    chk.tlc("Dissect enumerate single packets", g1)
    single = list({json.dumps(x, sort_keys=True): x for x in g1.printed if isinstance(x, dict) and "seq" in x}.values())
    # coalesced datagrams: words of the same automaton over the symbols TLC printed (packets with a Length field, then any packet, then the zero fill
    # only behind a Length field) -- the exhaustive runs above stop at 2 / 3 packets over a smaller alphabet
    syms = list({json.dumps(x["seq"][0], sort_keys=True): x["seq"][0] for x in single}.values())
    haslen = [x for x in syms if x["t"] in ("initial", "zrtt", "hs")]
    multi = []
    for _ in range(3000 if quick else 60000):
        n = rng.choice([2, 2, 3, 3, 4, 6])
        sq = [rng.choice(haslen) for _ in range(n - 1)] + [rng.choice(syms)]
        multi.append(dict(seq=sq, zeros=rng.choice([0, 0, 1, 7, 40]) if sq[-1]["t"] in ("initial", "zrtt", "hs") else 0))
    use = single + multi
    chk.extra["dissect_layouts"] = dict(single=len(single), coalesced=len(use) - len(single))
    chunks = [(use[i::32], rng.randrange(1 << 30), 0) for i in range(32)]
    for bad, n in pool_map(job, chunks, chunksize=1):
        chk.evaluations += n
        for it, hexd, why in bad:
            lay = [(s["t"], s["dl"], s["sl"], s["tw"], s["tl"], s["lw"], s["pn"], s["pay"]) for s in it["seq"]]
            chk.violation(f"dissector, datagram layout {lay} + {it['zeros']} zero bytes: {why}", dict(kind="dissect", item=it, datagram=hexd, why=why))
    chk.distinct |= {"dissect:" + json.dumps(x, sort_keys=True)[:600] for x in use}
    chk.traces_validated += len(use)
    return len(use)
