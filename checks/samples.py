"""The repository's own sample captures (real OpenSSL / browser traffic that no passing test executes end to end) as
conformance inputs: ground truth comes from the independent passive decryptor wire/tlsdec.py (own pcapng reader, TCP
reassembly, framing, key schedule, record decryption)."""
import glob
import os

from harness import runner
from observe.pcapng import Observation
from wire import tlsdec

REPO = runner.REPO


def tls_sample_sets():
    sets = [(f"{REPO}/test/testfiles/*.pcapng", f"{REPO}/test/keylog.log"), (f"{REPO}/test/incomplete_pcaps/*.pcapng", f"{REPO}/test/keylog.log")]
    for d in sorted(glob.glob(f"{REPO}/tlexport/pcaps_und_keylogs/*_pcaps")):
        if "quic" in d:
            continue
        logs = sorted(f for f in glob.glob(d + "/*") if not f.endswith(".pcapng"))
        if logs:
            sets.append((d + "/*.pcapng", logs[0]))
    out = []
    for pat, kl in sets:
        for f in sorted(glob.glob(pat)):
            out.append((f, kl))
    return out


def quic_samples():
    d = f"{REPO}/tlexport/pcaps_und_keylogs/quic_pcaps"
    logs = sorted(glob.glob(d + "/*.log"))
    out = []
    for f in sorted(glob.glob(d + "/*.pcapng")):
        own = f[:-7] + ".log"
        out.append((f, own if os.path.exists(own) else (logs[0] if logs else None)))
    return out


def run_tls_sample(job):
    """-> dict(file, flows=[dict(ok, why, events, truth, framing, suite obj...)])"""
    f, klf = job
    data, text = open(f, "rb").read(), open(klf).read()
    keylog = tlsdec.parse_keylog(text)
    res = runner.run_inproc(data, text, trace=True)
    out = dict(file=os.path.relpath(f, REPO), crashed=res.crashed, exc=(res.exc or "")[-300:], flows=[], problems=[])
    if res.crashed or res.out is None:
        return out
    o = Observation(res.out)
    out["problems"] = o.problems[:3]
    flows = tlsdec.tcp_streams(data)
    for k, fl in flows.items():
        try:
            dec = tlsdec.decrypt_flow(fl["c"], fl["s"], keylog)
        except tlsdec.DecErr as e:
            out["flows"].append(dict(skip=str(e)))
            continue
        cv = o.tcp_conv(fl["client"][0], fl["client"][1], fl["server"][0], fl["server"][1])
        got = (cv["streams"]["c"], cv["streams"]["s"]) if cv else (b"", b"")
        ok = got == (dec["c"], dec["s"])
        why = "" if ok else f"export ({len(got[0])}/{len(got[1])} bytes c/s) differs from the independent decryption ({len(dec['c'])}/{len(dec['s'])} bytes)"
        only = len(flows) == 1
        out["flows"].append(dict(ok=ok, why=why, ver=dec["ver"], suite=dec["suite"], truth=dec["truth"], framing=dec["framing"],
                                 events=res.events if only else [], nbytes=len(dec["c"]) + len(dec["s"]), aead=dec["sobj"].aead,
                                 implicit=(dec["ver"] in (0x0300, 0x0301) and dec["sobj"].mode == "CBC"), client=fl["client"], server=fl["server"],
                                 complete=("incomplete" not in f)))
    return out
