"""The repository's own sample captures (real OpenSSL / browser traffic that no passing test executes end to end) as
conformance inputs: ground truth comes from the independent passive decryptor wire/tlsdec.py (own pcapng reader, TCP
reassembly, framing, key schedule, record decryption)."""
import glob
import os

from harness import runner
from observe.pcapng import Observation
from wire import tlsdec

REPO = runner.REPO


def tls_sample_sets():
    sets = [(f"{REPO}/test/testfiles/*.pcapng", f"{REPO}/test/keylog.log"), (f"{REPO}/test/incomplete_pcaps/*.pcapng", f"{REPO}/test/keylog.log")]
    for d in sorted(glob.glob(f"{REPO}/tlexport/pcaps_und_keylogs/*_pcaps")):
        if "quic" in d:
            continue
        logs = sorted(f for f in glob.glob(d + "/*") if not f.endswith(".pcapng"))
        if logs:
            sets.append((d + "/*.pcapng", logs[0]))
    out = []
    for pat, kl in sets:
        for f in sorted(glob.glob(pat)):
            out.append((f, kl))
    return out


def quic_samples():
    d = f"{REPO}/tlexport/pcaps_und_keylogs/quic_pcaps"
    logs = sorted(glob.glob(d + "/*.log"))
    out = []
    for f in sorted(glob.glob(d + "/*.pcapng")):
        own = f[:-7] + ".log"
        out.append((f, own if os.path.exists(own) else (logs[0] if logs else None)))
    return out


def run_tls_sample(job):
    """-> dict(file, flows=[dict(ok, why, events, truth, framing, suite obj...)])"""
    f, klf = job
    data, text = open(f, "rb").read(), open(klf).read()
    keylog = tlsdec.parse_keylog(text)
    res = runner.run_inproc(data, text, trace=True)
    out = dict(file=os.path.relpath(f, REPO), crashed=res.crashed, exc=(res.exc or "")[-300:], flows=[], problems=[])
    if res.crashed or res.out is None:
        return out
    o = Observation(res.out)
    out["problems"] = o.problems[:3]
    flows = tlsdec.tcp_streams(data)
    for k, fl in flows.items():
        try:
            dec = tlsdec.decrypt_flow(fl["c"], fl["s"], keylog)
        except tlsdec.DecErr as e:
            out["flows"].append(dict(skip=str(e)))
            continue
        cv = o.tcp_conv(fl["client"][0], fl["client"][1], fl["server"][0], fl["server"][1])
        got = (cv["streams"]["c"], cv["streams"]["s"]) if cv else (b"", b"")
        ok = got == (dec["c"], dec["s"])
        why = "" if ok else f"export ({len(got[0])}/{len(got[1])} bytes c/s) differs from the independent decryption ({len(dec['c'])}/{len(dec['s'])} bytes)"
        only = len(flows) == 1
        out["flows"].append(dict(ok=ok, why=why, ver=dec["ver"], suite=dec["suite"], truth=dec["truth"], framing=dec["framing"],
                                 events=res.events if only else [], nbytes=len(dec["c"]) + len(dec["s"]), aead=dec["sobj"].aead,
                                 implicit=(dec["ver"] in (0x0300, 0x0301) and dec["sobj"].mode == "CBC"), client=fl["client"], server=fl["server"],
                                 complete=("incomplete" not in f)))
    return out


def quic_groups_match(got, exp):
    """got: [(dir, payload)] exported; exp: [(dir, stream, ts)] from the independent decryptor, in capture order.
    Datagrams are told apart by their capture timestamps (to microsecond resolution): an exported datagram must be the
    concatenation of k >= 1 consecutive reference datagrams of one direction whose capture times lie within one microsecond."""
    from fractions import Fraction
    i = 0
    for d, pl in got:
        if i >= len(exp) or exp[i][0] != d:
            return False
        acc, t0 = exp[i][1], exp[i][2]
        i += 1
        while acc != pl and len(acc) < len(pl) and i < len(exp) and exp[i][0] == d and abs(exp[i][2] - t0) < Fraction(1, 10 ** 6):
            acc += exp[i][1]
            i += 1
        if acc != pl:
            return False
    return i == len(exp)


def run_quic_sample(job):
    from wire import quicdec
    f, klf = job
    data, text = open(f, "rb").read(), open(klf).read()
    truth = quicdec.decrypt_capture(data, text)
    res = runner.run_inproc(data, text, opts=["-g"])          # the samples' clients grease the QUIC bit (RFC 9287): -g is needed to look at those packets
    out = dict(file=os.path.relpath(f, REPO), keylog=os.path.basename(klf), crashed=res.crashed, exc=(res.exc or "")[-300:], bad=[], ndg=0)
    if res.crashed or res.out is None:
        return out
    o = Observation(res.out)
    out["bad"] += ["output malformed: " + p for p in o.problems[:2]]
    for (cli, srv), exp in truth.items():
        got = [(d, pl) for d, _t, pl, _a, _b in o.udp_dgrams(cli[0], cli[1], srv[0], srv[1])]
        out["ndg"] += len(exp)
        if not quic_groups_match(got, exp):
            out["bad"].append(f"connection {cli[1]}->{srv[1]}: export ({len(got)} datagrams, {sum(len(p) for _d, p in got)} bytes) differs from the independent "
                              f"decryption ({len(exp)} datagrams, {sum(len(s) for _d, s, _t in exp)} bytes)")
    return out
