"""C13 -- metadata export (-a) only adds packets; application data is unchanged.
Spec: TlsSession.tla carries, next to `exported`, what the -a branches append (`metaOut`); invariants MetaOnlyAdds
(the application entries of metaOut are exactly `exported`, same order) and HellosExported are checked by TLC over
all worlds and histories.  Conformance: every generated behaviour is run twice through the working tree (with and
without -a) on the same capture: the payload-carrying packet sequence without -a must be a subsequence of the one
with -a (same payloads, same directions, same order), the ClientHello / ServerHello records must appear verbatim
as packets of their own, and the output must stay well-formed.  QUIC: see C02's generator (stream data with -a)."""
import json
import random

from checks import c01
from harness import runner, tlc
from harness.core import pool_map
from harness.tlsrun import build_tls_capture, observe_tls
from wire import tlsref as R
from wire.container import pcapng_bytes


def is_subseq(a, b):
    it = iter(b)
    return all(any(x == y for y in it) for x in a)


def _one(sc):
    try:
        cap, keylog, conns, flows = build_tls_capture(sc)
    except Exception:
        import traceback
        return dict(machinery=traceback.format_exc()[-1500:])
    kl = "\n".join(keylog) + "\n"
    data = pcapng_bytes(cap.pkts)
    c = conns[0]
    outs = {}
    bad = []
    for tag, opts in (("plain", []), ("meta", ["-a"])):
        res = runner.run_inproc(data, kl, opts=opts + sc.get("opts", []))
        obs, o = observe_tls(res, conns, flows, sc.get("opts", []))
        if obs["crashed"]:
            bad.append(f"{tag}: run aborted: " + obs["exc"].strip().splitlines()[-1])
            return dict(sc=sc, bad=bad)
        if obs["problems"]:
            bad.append(f"{tag}: output malformed: {obs['problems'][0]}")
        outs[tag] = obs["conns"][0] if obs["conns"] else dict(c=b"", s=b"", segs=[])
    p = [(d, pl) for d, _ts, pl, _n in outs["plain"].get("segs", [])]
    m = [(d, pl) for d, _ts, pl, _n in outs["meta"].get("segs", [])]
    if not is_subseq(p, m):
        bad.append("the payload-carrying packets exported without -a are not a subsequence of those exported with -a "
                   f"({len(p)} vs {len(m)} packets): application data changed, reordered or lost under -a")
    if not sc["conns"][0].get("alert_at") and (outs["plain"]["c"] != c.truth("c") or outs["plain"]["s"] != c.truth("s")):
        bad.append("export without -a differs from the data sent")
    # "only adds handshake, alert and change-cipher-spec material": what -a exports per direction must be exactly the
    # application data of the plain run interleaved, in record order, with that material (raw records; the decrypted
    # Finished in front of its raw record) -- nothing else, in particular no further application data
    for d in "cs":
        plain, pos, exp = outs["plain"][d], 0, b""
        for r in c.records:
            if r.d != d:
                continue
            if r.kind == "APP":
                if r.plain and plain[pos:pos + len(r.plain)] == r.plain:
                    exp += r.plain
                    pos += len(r.plain)
            elif r.kind in ("CH", "SH", "HS", "CCS") or (r.kind == "ALERT" and c.ver != R.TLS13):
                exp += r.raw            # (TLS 1.3 alerts travel as application-data-typed records and are not metadata records)
            elif r.kind == "FIN":
                exp += r.prot["inner"] + r.raw
        got = outs["meta"][d]
        if pos != len(plain):
            continue            # the plain export is not a sequence of whole records of this connection: judged by C01
        if got != exp:
            i = next((i for i in range(min(len(got), len(exp))) if got[i] != exp[i]), min(len(got), len(exp)))
            bad.append(f"direction {d}: with -a {len(got)} bytes are exported, the application data of the plain run plus handshake/alert/CCS material "
                       f"is {len(exp)} bytes (first difference at byte {i}): -a changed which application data is exported or added something else")
    # ClientHello / ServerHello verbatim as packets of their own (a record carried by k packets may come in <= k parts)
    for r in c.records:
        if r.kind in ("CH", "SH") and outs["meta"].get("segs") is not None:
            segs = [pl for d, _ts, pl, _n in outs["meta"]["segs"] if d == r.d]
            ok = False
            for i in range(len(segs)):
                acc = b""
                for j in range(i, len(segs)):
                    acc += segs[j]
                    if acc == r.raw:
                        ok = True
                    if len(acc) >= len(r.raw):
                        break
                if ok:
                    break
            if not ok:
                bad.append(f"with -a the {r.kind} record is not exported verbatim as packets of its own")
    return dict(sc=sc, bad=bad, added=len(m) - len(p))


def _quic_one(job):
    from harness.quicrun import run_quic, observed_dgrams
    b, seed, params = job
    outs = {}
    for tag, opts in (("plain", []), ("meta", ["-a"])):
        try:
            c, payload, fl, cap, res = run_quic(b, seed, params, opts=opts)
        except Exception:
            import traceback
            return dict(machinery=traceback.format_exc()[-1500:])
        if res.crashed:
            return dict(b=b, seed=seed, params=params, bad=[f"{tag}: run aborted: " + res.exc.strip().splitlines()[-1]])
        got, probs = observed_dgrams(res, fl, opts)
        if got is None or probs:
            return dict(b=b, seed=seed, params=params, bad=[f"{tag}: output malformed or missing: {probs[:1]}"])
        outs[tag] = [(d, pl) for d, _t, pl in got]
    # every piece of stream data of the plain export appears with -a, same order, same direction (it may share its datagram with
    # handshake bytes)
    bad, j, off = [], 0, 0
    for d, pl in outs["plain"]:
        found = False
        while j < len(outs["meta"]):
            md, mp = outs["meta"][j]
            k = mp.find(pl, off) if md == d else -1
            if k >= 0:
                off = k + len(pl)
                found = True
                break
            j += 1
            off = 0
        if not found:
            bad.append(f"stream data of a {d} datagram ({len(pl)} bytes) exported without -a is missing (or out of order / in the wrong direction) with -a")
            break
    return dict(b=b, seed=seed, params=params, bad=bad, nplain=len(outs["plain"]), nmeta=len(outs["meta"]))


def run(chk):
    quick = chk.tier == "quick"
    rng = random.Random(chk.seed)
    r = tlc.run("TlsSession", dict(c01.BASE, MaxApp="3" if quick else "4", Alerts="TRUE"), invariants=["MetaOnlyAdds", "HellosExported", "ExportedIsPrefix"],
                view="View", timeout=1200)
    chk.tlc("TlsSession MetaOnlyAdds", r)
    r = tlc.run("TlsSession", dict(c01.BASE, MaxApp="4", EmitOn="TRUE"), invariants=["Emit"], simulate=(60 if quick else 1500, 30),
                workers=1, seed=chk.seed + 13, timeout=600)
    chk.tlc("TlsSession generate", r)
    behs = list({json.dumps(b, sort_keys=True): b for b in r.printed}.values())
    rng.shuffle(behs)
    jobs = []
    for b in behs[: 500 if quick else 12000]:
        cd = c01.conn_desc(b, rng)
        if rng.random() < 0.3:
            cd["alert_end"] = rng.choice(["warning", "fatal"])
        if rng.random() < 0.3 and len(cd["app"]) >= 2:
            cd["alert_at"] = {str(rng.randrange(1, len(cd["app"]))): [rng.choice(["c", "s"]), rng.choice([1, 2])]}
        jobs.append(dict(conns=[cd], opts=rng.choice([[], [], ["-m"]])))
    results = pool_map(_one, jobs)
    for res in results:
        if "machinery" in res:
            raise Exception("replay failed in the harness: " + res["machinery"])
        chk.evaluations += 2
        chk.distinct.add(json.dumps(res["sc"], sort_keys=True)[:3000])
        chk.sample(dict(version=R.VNAME[res["sc"]["conns"][0]["ver"]], suite=hex(res["sc"]["conns"][0]["suite"]),
                        packets_added_by_a=res.get("added")), limit=3)
        for b in res["bad"]:
            chk.violation(b, dict(scenario=res["sc"], findings=res["bad"]))
    # QUIC: behaviours of Quic.tla (as C02), also with byte-identical duplicate datagrams, with and without -a
    from checks import c02
    qb = c02.gen(chk, dict(MaxApp="3"), 15 if quick else 300, chk.seed + 5)
    rng.shuffle(qb)
    qjobs = []
    for b in qb[: 200 if quick else 4000]:
        prm = c02.params_for(rng, quick)
        prm["dup_dgrams"] = rng.random() < 0.5
        qjobs.append((b, rng.randrange(1 << 30), prm))
    for res in pool_map(_quic_one, qjobs):
        if "machinery" in res:
            raise Exception("QUIC replay failed in the harness: " + res["machinery"])
        chk.evaluations += 2
        chk.distinct.add(json.dumps([res["seed"], res["params"]], sort_keys=True))
        for bd in res["bad"]:
            chk.violation(f"QUIC suite {res['b']['suite']} retry={res['b']['retry']} 0rtt={res['b']['zrtt']} dup={res['params'].get('dup_dgrams')}: {bd}",
                          dict(behaviour=res["b"], seed=res["seed"], params=res["params"], why=bd))
    chk.extra["quic_runs"] = 2 * len(qjobs)
    chk.rule = ("behaviours of TlsSession (as C01) each run with and without -a on the same capture; evaluations = runs; "
                "distinct = distinct scenarios; all exercise the -a branches (every connection has handshake records)")


def replay(chk, path):
    obj = json.load(open(path))
    r = _one(obj["scenario"])
    print(json.dumps(dict(bad=r.get("bad")), indent=1))
    return 1 if r.get("bad") else 0
