"""C15 -- derived traffic keys equal the RFC key schedules for all inputs.
Spec: spec/KeySched.tla -- which secret / label / hash / length / key-block offset feeds which installed slot, as
symbolic terms: TLS <= 1.2 key-block layout per (cipher, MAC, version) class with the code's own IV-length rule
against RFC 5246 6.3; TLS 1.3 key/iv per traffic secret incl. the fallback without handshake secrets and the
handshake->application switch; QUIC initial / handshake / 1-RTT / key-update chains.  TLC checks term equality
(Installed12 / Installed13 / InstalledQuic) over all classes.
Conformance: for every (cipher, MAC) class of the table and every version it is valid for (thorough: every suite),
a synthetic handshake with random secrets and randoms is fed to the working tree; the `keys` hook events (= the
decryptor attributes as actually installed) are compared slot by slot with the reference key schedule in
/verif/wire (pinned by RFC vectors).  Where the RFC defines no value (key-block IV of CBC in TLS >= 1.1) nothing is
compared.  QUIC: random CIDs of length 0..20, four suites, up to 3 key generations, with and without Retry."""
import json
import random

from checks import c01, c02
from harness import tlc
from harness.core import pool_map
from harness.quicrun import run_quic
from harness.tlsrun import run_tls, suites
from wire import quicref as Q
from wire import tlsref as R


def _tls(job):
    ver, code, seed, shape = job
    cd = dict(ver=ver, suite=code, seed=seed, shape=shape, app=[["c", 20], ["s", 30]])
    try:
        cap, conns, flows, res, obs, o = run_tls(dict(conns=[cd]), trace=True)
    except Exception:
        import traceback
        return dict(machinery=traceback.format_exc()[-1500:])
    c = conns[0]
    ev = [e for e in res.events if e["ev"] == "keys" and e.get("proto") == "tls"]
    bad = []
    if res.crashed:
        bad.append("run aborted: " + res.exc.strip().splitlines()[-1])
    elif not ev:
        return dict(ver=ver, code=code, bad=[], nokeys=True, name=c.suite.name)
    else:
        bad = compare_slots(c, ver, shape, ev[-1]["keys"])
    return dict(ver=ver, code=code, bad=bad, name=c.suite.name, nokeys=False)


def _tls_multi(job):
    """several connections in ONE capture (one run): the keys installed for each must be its own RFC keys, whatever the others were"""
    descs = job
    cds = [dict(ver=ver, suite=code, seed=seed, shape=shape, app=[["c", 20], ["s", 30]], flow=dict(idx=i)) for i, (ver, code, seed, shape) in enumerate(descs)]
    try:
        cap, conns, flows, res, obs, o = run_tls(dict(conns=cds), trace=True)
    except Exception:
        import traceback
        return dict(machinery=traceback.format_exc()[-1500:])
    bad = []
    if res.crashed:
        return dict(bad=["run aborted: " + res.exc.strip().splitlines()[-1]], descs=descs, n=0)
    n = 0
    for c, (ver, code, seed, shape) in zip(conns, descs):
        ev = [e for e in res.events if e["ev"] == "keys" and e.get("proto") == "tls" and e.get("cr") == c.cr.hex()]
        if ev:
            n += 1
            bad += [f"connection {R.VNAME[ver]} {c.suite.name} (one of {len(descs)} in the capture): {b}" for b in compare_slots(c, ver, shape, ev[-1]["keys"])]
    return dict(bad=bad, descs=descs, n=n)


def _tls_reuse(job):
    """two TLS 1.3 connections WITHOUT compatibility ChangeCipherSpec one after the other on the SAME 4-tuple (the client reuses its port): the
    session sees a second ClientHello; the keys installed after it must be those of the second client random"""
    seeds, code, partial = job
    cds = [dict(ver=R.TLS13, suite=code, seed=sd, shape=dict(ccs13=False, hs_in_log=not (partial and i == 1)), app=[["c", 20], ["s", 30]],
                flow=dict(idx=0), isn=(1000 + 500000 * i, 9000 + 700000 * i)) for i, sd in enumerate(seeds)]
    try:
        from harness.tlsrun import build_conn
        from wire.capture import segment
        ns = [len(segment(build_conn(cd), i)) for i, cd in enumerate(cds)]
        cap, conns, flows, res, obs, o = run_tls(dict(conns=cds, order=[0] * ns[0] + [1] * ns[1]), trace=True)
    except Exception:
        import traceback
        return dict(machinery=traceback.format_exc()[-1500:])
    if res.crashed:
        return dict(bad=["run aborted: " + res.exc.strip().splitlines()[-1]], n=0, job=job)
    bad, n = [], 0
    for i, c in enumerate(conns):
        ev = [e for e in res.events if e["ev"] == "keys" and e.get("proto") == "tls" and e.get("cr") == c.cr.hex()]
        if not ev:
            bad.append(f"handshake {i + 1} of 2 on one 4-tuple: no keys installed for its client random")
            continue
        n += 1
        bad += [f"handshake {i + 1} of 2 on one 4-tuple ({c.suite.name}): {b}" for b in compare_slots(c, R.TLS13, cds[i]["shape"], ev[-1]["keys"])]
    return dict(bad=bad, n=n, job=job)


def compare_slots(c, ver, shape, k):
    bad = []
    if True:
        s = c.suite
        if ver != R.TLS13:
            kb = c.kb
            want = dict(client_key=kb["ckey"], server_key=kb["skey"])
            if not s.aead:
                want.update(client_mac=kb["cmac"], server_mac=kb["smac"])
            if R.fixed_iv_len(s, ver):
                want.update(client_iv=kb["civ"], server_iv=kb["siv"])
        else:
            want = {}
            for side, lab_hs, lab_ap in (("client", "CLIENT_HANDSHAKE_TRAFFIC_SECRET", "CLIENT_TRAFFIC_SECRET_0"),
                                         ("server", "SERVER_HANDSHAKE_TRAFFIC_SECRET", "SERVER_TRAFFIC_SECRET_0")):
                key, iv = R.tls13_traffic_keys(s, c.secrets[lab_ap])
                want[f"{side}_application_key"], want[f"{side}_application_iv"] = key, iv
                if shape.get("hs_in_log", True) in (True, "both", side[0]):
                    key, iv = R.tls13_traffic_keys(s, c.secrets[lab_hs])
                want[f"{side}_handshake_key"], want[f"{side}_handshake_iv"] = key, iv
                want[f"{side}_key"], want[f"{side}_iv"] = key, iv            # installed first: the handshake key (or its fallback)
        for slot, val in want.items():
            got = k.get(slot)
            if got is None:
                bad.append(f"slot {slot} is not installed")
            elif bytes.fromhex(got)[:len(val)] != val or (slot.endswith("key") or slot.endswith("mac")) and len(bytes.fromhex(got)) != len(val):
                bad.append(f"slot {slot}: installed {got[:24]}.. ({len(got) // 2} bytes), RFC key schedule gives {val.hex()[:24]}.. ({len(val)} bytes)")
    return bad


def _quic(job):
    b, seed, params = job
    try:
        c, payload, fl, cap, res = run_quic(b, seed, params, trace=True)
    except Exception:
        import traceback
        return dict(machinery=traceback.format_exc()[-1500:])
    bad = []
    if res.crashed:
        return dict(bad=["run aborted: " + res.exc.strip().splitlines()[-1]], b=b, seed=seed, params=params)
    evs = [e for e in res.events if e["ev"] == "keys" and e.get("proto") == "quic"]
    init = [e for e in evs if e["level"] == "initial"]
    # initial keys: first derivation from the client's first DCID, after a Retry from the Retry's SCID
    srcs = [c.odcid] + ([c.retry_scid] if b["retry"] else [])
    if len(init) != len(srcs):
        bad.append(f"{len(init)} initial key derivations, expected {len(srcs)}")
    for e, src in zip(init, srcs):
        ik = Q.initial_keys(src)
        for side, d in (("client", "c"), ("server", "s")):
            for part, val in (("key", ik[d].key), ("iv", ik[d].iv), ("hp", ik[d].hp)):
                got = e["keys"].get(f"{side}_initial_{part}")
                if got != val.hex():
                    bad.append(f"{side}_initial_{part}: installed {got}, RFC 9001 5.2 gives {val.hex()} (from DCID {src.hex()})")
    tls = [e for e in evs if e["level"] == "tls"]
    if tls:
        k = tls[-1]["keys"]
        for side, d in (("client", "c"), ("server", "s")):
            for lvl, keys in (("handshake", c.hs[d]), ("application", c.app[d][0])):
                for part, val in (("key", keys.key), ("iv", keys.iv), ("hp", keys.hp)):
                    if k.get(f"{side}_{lvl}_{part}") != val.hex():
                        bad.append(f"{side}_{lvl}_{part}: installed {k.get(f'{side}_{lvl}_{part}')}, RFC gives {val.hex()}")
        if b["zrtt"] and b["first"] == "same":
            for part, val in (("key", c.early.key), ("iv", c.early.iv), ("hp", c.early.hp)):
                if k.get(f"client_early_{part}") != val.hex():
                    bad.append(f"client_early_{part}: installed {k.get(f'client_early_{part}')}, RFC gives {val.hex()}")
    else:
        bad.append("no handshake / 1-RTT keys installed")
    ku = [e for e in evs if e["level"] == "ku"]
    for e in ku:            # RFC 9001 6.1: a key update replaces packet-protection key and IV only -- the header-protection keys stay those of generation 0
        for side, d in (("client", "c"), ("server", "s")):
            got = e["keys"].get(f"{side}_application_hp")
            if got is not None and got != c.app[d][0].hp.hex():
                bad.append(f"{side}_application_hp after a key update: installed {got[:16]}.., RFC 9001 6.1 keeps {c.app[d][0].hp.hex()[:16]}.. (not updated)")
    if ku:
        gens = ku[-1]["keys"]["generations"]
        for g, gk in enumerate(gens):
            for d, sk, si in (("c", "ckey", "civ"), ("s", "skey", "siv")):
                while len(c.app[d]) <= g:
                    c.app[d].append(c.app[d][-1].next_gen())
                if gk[sk] != c.app[d][g].key.hex() or gk[si] != c.app[d][g].iv.hex():
                    bad.append(f"1-RTT generation {g} direction {d}: installed key/iv {gk[sk][:16]}../{gk[si][:16]}.., RFC 9001 6.1 gives "
                               f"{c.app[d][g].key.hex()[:16]}../{c.app[d][g].iv.hex()[:16]}..")
    return dict(bad=bad, b=b, seed=seed, params=params, ngen=len(ku[-1]["keys"]["generations"]) if ku else 1)


def run(chk):
    quick = chk.tier == "quick"
    rng = random.Random(chk.seed)
    r = tlc.run("KeySched", {}, invariants=["Installed12", "Installed13", "InstalledQuic"], timeout=600)
    chk.tlc("KeySched term equality over all classes", r)
    # every (cipher, mode, keylen, mac) class x valid version [quick: 2 suites per class; thorough: every suite], several shapes
    classes = {}
    for code, s in suites().items():
        if R.implementable(s):
            classes.setdefault((s.cipher, s.mode, s.keylen, s.mac, s.prf, s.tag), []).append(code)
    jobs = []
    for cls, codes in sorted(classes.items()):
        pick = codes if not quick else rng.sample(codes, min(2, len(codes)))
        for code in pick:
            for ver in R.VERSIONS:
                if not R.valid_for(suites()[code], ver):
                    continue
                shapes = [dict()] + ([dict(abbreviated=True)] if ver != R.TLS13 else [dict(hs_in_log=False), dict(hs_in_log="c"), dict(hs_in_log="s")])
                if suites()[code].mode == "CBC" and ver >= R.TLS10:
                    shapes.append(dict(ext="etm"))
                for sh in shapes:
                    for _ in range(1 if quick else 3):
                        jobs.append((ver, code, rng.randrange(1 << 30), dict(sh, secret_edges=rng.randrange(1, 1000)) if rng.random() < 0.3 else sh))
    covered = set()
    for res in pool_map(_tls, jobs):
        if "machinery" in res:
            raise Exception("harness: " + res["machinery"])
        chk.evaluations += 1
        chk.traces_validated += 0 if res["nokeys"] else 1
        chk.distinct.add((res["ver"], res["code"]))
        covered.add((res["ver"], res["code"]))
        chk.sample(dict(version=R.VNAME[res["ver"]], suite=res["name"]), limit=2)
        if res["nokeys"]:
            chk.extra["runs_without_keys_event"] = chk.extra.get("runs_without_keys_event", 0) + 1
        for b in res["bad"]:
            chk.violation(f"{R.VNAME[res['ver']]} {res['name']}: {b}", dict(ver=res["ver"], suite=res["code"], why=b))
    chk.extra["version_suite_pairs"] = len(covered)
    # several connections per capture: complete and partial TLS 1.3 key logs, full and abbreviated <= 1.2 handshakes next to each other
    mj = []
    for _ in range(40 if quick else 600):
        ds = []
        for _k in range(rng.randint(2, 4)):
            ver, code, seed, sh = rng.choice(jobs)
            ds.append((ver, code, rng.randrange(1 << 30), sh))
        mj.append(ds)
    # TLS 1.3 connections with complete and partial key logs in every order (a missing label falls back to the application secret of
    # THE SAME connection, never to anything left over from another one)
    j13 = [j for j in jobs if j[0] == R.TLS13] or [(R.TLS13, 0x1301, 0, {}), (R.TLS13, 0x1302, 0, {}), (R.TLS13, 0x1303, 0, {})]
    for _ in range(30 if quick else 400):
        ds = []
        for _k in range(rng.randint(2, 4)):
            ver, code, seed, sh = rng.choice(j13)
            ds.append((ver, code, rng.randrange(1 << 30), dict(hs_in_log=rng.choice([True, False, "c", "s"]))))
        mj.append(ds)
    nm = 0
    for res in pool_map(_tls_multi, mj):
        if "machinery" in res:
            raise Exception("harness: " + res["machinery"])
        chk.evaluations += 1
        nm += res["n"]
        for b in res["bad"]:
            chk.violation(b, dict(connections=[[v, c_, sd, sh] for v, c_, sd, sh in res["descs"]], why=b))
    chk.extra["connections_checked_inside_multi_connection_captures"] = nm
    c13 = sorted({j[1] for j in j13})
    rj = [([rng.randrange(1 << 30), rng.randrange(1 << 30)], rng.choice(c13), rng.random() < 0.3) for _ in range(12 if quick else 200)]
    for res in pool_map(_tls_reuse, rj):
        if "machinery" in res:
            raise Exception("harness: " + res["machinery"])
        chk.evaluations += 1
        chk.traces_validated += res["n"]
        for b in res["bad"]:
            chk.violation(b, dict(reuse=res["job"], why=b))
    # QUIC
    ku = dict(SuiteSet='{"1301","1302","1303","1304"}', OfferFirst='{"same","other","grease"}', Splits='{<<1>>}', Retries="BOOLEAN", ZeroRtts="BOOLEAN", MaxApp="5", MaxGen="3")
    behs = c02.gen(chk, ku, 20 if quick else 300, chk.seed)
    rng.shuffle(behs)
    qjobs = [(b, rng.randrange(1 << 30), dict(odcid_len=rng.choice([8, 9, 13, 20]), c_cid_len=rng.choice(c02.CIDLENS), s_cid_len=rng.choice(c02.CIDLENS),
                                              pnlen={"c": 2, "s": 2})) for b in behs[: 250 if quick else 5000]]
    maxgen = 0
    for res in pool_map(_quic, qjobs):
        if "machinery" in res:
            raise Exception("harness: " + res["machinery"])
        chk.evaluations += 1
        chk.traces_validated += 1
        maxgen = max(maxgen, res.get("ngen", 0))
        chk.distinct.add(("quic", res["seed"]))
        for b in res["bad"]:
            chk.violation(f"QUIC {res['b']['suite']} retry={res['b']['retry']} 0rtt={res['b']['zrtt']}: {b}",
                          dict(behaviour=res["b"], seed=res["seed"], params=res["params"], why=b))
    chk.extra["quic_key_generations_reached"] = maxgen
    chk.sample(dict(quic_behaviour=dict(suite=behs[0]["suite"], retry=behs[0]["retry"], zrtt=behs[0]["zrtt"])) if behs else {})
    chk.rule = ("TLS: (version, suite) pairs covering every (cipher, mode, key length, MAC, PRF, tag) class of the table in every valid version, "
                "full / abbreviated / encrypt-then-MAC / without-handshake-secrets shapes, fresh random secrets and randoms per run; QUIC: TLC "
                "behaviours with key updates, Retry and 0-RTT under random CID lengths; distinct = distinct (version, suite) pairs + QUIC runs")
    chk.assumptions += ["hash / HMAC / HKDF arithmetic of the reference is pinned by RFC 5869, RFC 8448, RFC 9001 vectors (wire/selftest.py)",
                        "key-block IVs of CBC suites in TLS >= 1.1 are not compared (no RFC value)"]


def replay(chk, path):
    return 0
