"""C07 -- exported packets keep the endpoints, direction and capture time of their origin.
Spec: Reasm.tla (MetaIsOverlapSet: provenance of a record = the captured segments overlapping it, for every
segmentation/reordering/duplication) and TcpOut.tla (part i stamped with carrier i, handshake stamped with the first
record's first carrier, addresses oriented sender->receiver).  Conformance: schedules from Reasm and record/carrier
combinations from TcpOut are realised with random MAC/IP/port values, IPv4 and IPv6, timestamps with arbitrary
sub-second (and, under nanosecond resolution, sub-microsecond) parts; the observed conversations are validated in
TLC against the TcpOut contract (times must be times of carriers of that very record) and the observer compares
endpoints and orientation with the capture's ground truth."""
import json
import random

from checks import c05, c06
from harness import tlc
from harness.core import pool_map
from harness.outcheck import out_trace, validate_out
from harness.tlsrun import run_tls
from wire import tlsref as R


def rnd_flow(rng, ipv):
    n = 4 if ipv == 4 else 16
    rb = lambda k: bytes(rng.getrandbits(8) for _ in range(k))
    mac = lambda: bytes([rng.getrandbits(8) & 0xFE | 2]) + rb(5)
    ip = lambda: (bytes([rng.choice([10, 172, 192, 8, 100])]) + rb(3)) if ipv == 4 else (bytes.fromhex("2001") + rb(14))
    return dict(cmac=mac().hex(), smac=mac().hex(), cip=ip().hex(), sip=ip().hex(), cport=rng.randint(1024, 65535),
                sport=rng.choice([443, 44330]))


# two-interface sections (Container.tla PerInterface); every variant keeps microsecond timestamps exact, so the 1 us rule is unaffected
TWO_IF = [dict(tsresol=9, tsoffset=3600, second_if=[None, None]), dict(tsresol=6, tsoffset=86400, second_if=[None, None]),
          dict(second_if=[9, 5]), dict(tsresol=9, second_if=[6, 7200]), dict(tsresol=None, tsoffset=17, second_if=[9, None])]


def _one(sc):
    try:
        cap, conns, flows, res, obs, o = run_tls(sc, trace=True)
    except Exception:
        import traceback
        return dict(machinery=traceback.format_exc()[-1500:])
    f, c = flows[0], conns[0]
    bad = []
    true_ns = None
    if sc.get("container", {}).get("sub"):
        true_ns = [ts * 1000 + (i * 377) % 1000 for i, (ts, _) in enumerate(cap.pkts)]
    tr = None
    if obs["crashed"] or o is None:
        bad.append("run aborted: " + (obs["exc"].strip().splitlines() or ["?"])[-1])
    else:
        got = obs["conns"][0]
        if not got.get("found"):
            bad.append("no output conversation between the connection's own endpoints (addresses/ports/IP version changed)")
        else:
            if got["macs"] != {"c": f.client.mac, "s": f.server.mac}:
                bad.append("MAC addresses of the exported conversation are not those of the connection's endpoints")
            if got["c"] != c.truth("c") or got["s"] != c.truth("s"):
                bad.append("payload attributed to the wrong direction or altered")
        # no packet may carry any other address
        allowed = {(f.client.ip, f.client.port), (f.server.ip, f.server.port)}
        for i in o.packets:
            if (i["src"], i["sport"]) not in allowed or (i["dst"], i["dport"]) not in allowed or i["ipv"] != f.ipv:
                bad.append(f"exported packet {i['n']} carries foreign addresses or IP version")
                break
        bad += obs["problems"][:2]
        if sc.get("all_zero"):          # a capture without a clock: every packet at time 0 -- every exported packet carries exactly that time
            if any(i["ts"] != 0 for i in o.packets):
                bad.append("a capture whose packets all carry time 0 is exported with other times")
        else:
            tr = out_trace(cap, conns, flows, o, sc.get("opts", ()), true_ns=true_ns)
    rel = [e for e in res.events if e["ev"] in ("feed", "release")]
    if sc.get("stale_first"):           # the older connection's record is not part of this connection's framing: its feed / release are left out
        sq = random.Random(sc["stale_first"]).randrange(1 << 32)
        rel = [e for e in rel if not (e["dir"] == "s" and (e.get("seq") == sq or e.get("seqs") == [sq]))]
    return dict(sc=sc, bad=bad, traces=tr, events=rel,
                framing={d: [len(r.raw) for r in c.records if r.d == d] for d in "cs"},
                isn={d: (sc["conns"][0].get("isn", (1000, 5000))["cs".index(d)] + 1) % 2 ** 32 for d in "cs"})


def _quic_one(job):
    """QUIC connections between random endpoints (MACs, addresses, IP version), some with a NAT rebinding in mid-connection: every exported datagram
    carries the endpoints of the connection as first seen, the direction and stream data of its input datagram and that datagram's capture time"""
    from harness.quicrun import run_quic
    from harness.tlsrun import flow_of
    from observe.pcapng import Observation
    b, seed, params, fd = job
    try:
        fl = flow_of(dict(flow=fd), 0)
        c, payload, fl, cap, res = run_quic(b, seed, params, flow=fl)
    except Exception:
        import traceback
        return dict(machinery=traceback.format_exc()[-1500:])
    bad = []
    if res.crashed or res.out is None:
        return dict(bad=["run aborted: " + (res.exc or "no output").strip().splitlines()[-1]], b=b, seed=seed, params=params, flow=fd)
    o = Observation(res.out)
    ends = {(fl.client.ip, fl.client.port), (fl.server.ip, fl.server.port)}
    for i in o.packets:
        if i["l4"] != "udp" or (i["src"], i["sport"]) not in ends or (i["dst"], i["dport"]) not in ends or i["ipv"] != fl.ipv:
            bad.append(f"exported packet {i['n']} carries foreign addresses, ports, transport or IP version")
            break
    got = o.udp_dgrams(fl.client.ip, fl.client.port, fl.server.ip, fl.server.port)
    truth = [(g.d, g.stream, cap.pkts[k][0]) for k, g in enumerate(c.dgrams) if g.stream]
    if [(d, pl) for d, _t, pl, _s, _m in got] != [(d, pl) for d, pl, _t in truth]:
        bad.append("stream data attributed to the wrong direction, altered or missing between the connection's own endpoints")
    else:
        for (d, ts, pl, sm, dm), (_d, _p, tin) in zip(got, truth):
            snd, rcv = (fl.client, fl.server) if d == "c" else (fl.server, fl.client)
            if (sm, dm) != (snd.mac, rcv.mac):
                bad.append("MAC addresses of an exported datagram are not those of the connection's endpoints")
                break
            if int(ts * 10 ** 6) != tin:
                bad.append("an exported datagram does not carry the capture time of its input datagram")
                break
    bad += o.problems[:2]
    return dict(bad=bad, b=b, seed=seed, params=params, flow=fd)


def run(chk):
    quick = chk.tier == "quick"
    rng = random.Random(chk.seed)
    r = tlc.run("Reasm", dict(c05.BASE, MaxHeld="1", MaxDup="1"), invariants=["MetaIsOverlapSet", "ReleasedIsPrefix"], view="View",
                timeout=300)
    chk.tlc("Reasm provenance", r)
    r = tlc.run("TcpOut", dict(MaxLen="8", MaxK="4", MaxRec="3", EmitOn="FALSE"), invariants=["RecordSplit", "HandshakeTime", "HandshakeFirst"],
                timeout=300)
    chk.tlc("TcpOut carriers", r)
    jobs = []
    # (a) schedules with reordering / duplicates: provenance must follow the segments actually used
    for st in [(1, 2), (2, 1, 1)] + ([] if quick else [(1, 1, 2, 1), (3, 2)]):
        behs = c05.gen_behaviours(chk, st, dict(MaxHeld="2", MaxDup="1"), 30 if quick else 400, seed=chk.seed)
        rng.shuffle(behs)
        for i, b in enumerate(behs[: 150 if quick else 2500]):
            sc = c05.scenario(b, st, c05.KINDS[i % len(c05.KINDS)], rng.randrange(1 << 30))
            if sc is None:
                continue
            sc["conns"][0]["flow"] = rnd_flow(rng, rng.choice([4, 6]))
            sc["ts0"], sc["step"] = rng.randrange(10 ** 15, 2 * 10 ** 15), rng.choice([1, 7, 999_983, 1_000_003, 123_457])
            if i % 3 == 0:
                sc["container"] = dict(sub=True, tsresol=9)
                sc["step"] = max(sc["step"], 7)     # with 1 us spacing a 1 us tolerance cannot tell neighbours apart
            elif i % 3 == 1:
                sc["container"] = rng.choice(TWO_IF)   # every second packet captured on a second interface with its own resolution / offset
            elif i % 2 == 0:
                sc["stale_first"] = rng.randrange(1, 1 << 30)   # the session is opened by a server->client segment of an older connection
            jobs.append(sc)
    # (b) records of n bytes carried by k packets
    r = tlc.run("TcpOut", dict(MaxLen="12", MaxK="5", MaxRec="4", EmitOn="TRUE"), invariants=["Emitter"],
                simulate=(10 if quick else 200, 6), workers=1, seed=chk.seed + 7, timeout=300)
    chk.tlc("TcpOut generate", r)
    pr = list(r.printed)
    rng.shuffle(pr)
    # the FIRST exported record need not be the first one captured: a record of the other direction completes inside a multi-segment record
    # (full duplex) -- the synthetic handshake then carries the time of the record that is exported first, not the earliest carrier in the queue
    fd = []
    for i in range(40 if quick else 600):
        d1 = rng.choice("cs")
        fd.append(dict(recs=[dict(d=d1, n=rng.randint(4, 12), k=rng.randint(2, 4)), dict(d="s" if d1 == "c" else "c", n=rng.randint(1, 9), k=1)]
                       + [dict(d=rng.choice("cs"), n=rng.randint(0, 12), k=rng.randint(1, 3)) for _ in range(rng.randint(0, 2))], fd=True))
    pr = fd + pr
    for i, b in enumerate(pr[: 340 if quick else 5600]):
        sc = c06.scenario(b["recs"], c06.KINDS[i % len(c06.KINDS)], rng.randrange(1 << 30), 4)     # (every second one full-duplex)
        sc["conns"][0]["flow"] = rnd_flow(rng, rng.choice([4, 6]))
        sc["ts0"], sc["step"] = rng.randrange(10 ** 15, 2 * 10 ** 15), rng.choice([1, 7, 999_983, 1_000_003, 123_457])
        if i % 7 == 3:
            sc["ts0"] = 0           # a device without a clock: the capture starts at time 0 (1970-01-01); the first packets of the export carry exactly that
        if b.get("fd"):
            sc["duplex"], sc["duplex_p"], sc["zoo"] = sc["duplex"] or 1, 1.0, 0
        if i % 3 == 0:
            sc["container"] = dict(sub=True, tsresol=9)
            sc["step"] = max(sc["step"], 7)
        elif i % 3 == 1 and sc["ts0"] != 0:        # (positive interface offsets cannot express times before the offset)
            sc["container"] = rng.choice(TWO_IF)
        jobs.append(sc)
    for i in range(6 if quick else 60):     # captures of a device without a clock: all times are 0
        sc = c06.scenario([dict(d=rng.choice("cs"), n=rng.randint(1, 12), k=rng.randint(1, 3)) for _ in range(rng.randint(1, 4))], c06.KINDS[i % len(c06.KINDS)],
                          rng.randrange(1 << 30), rng.choice([4, 6]))
        sc["conns"][0]["flow"] = rnd_flow(rng, rng.choice([4, 6]))
        sc.update(ts0=0, step=0, all_zero=True, zoo=0)
        jobs.append(sc)
    # QUIC ("all connections as in C01 / C02")
    from checks import c02
    qb = c02.gen(chk, dict(MaxApp="3", ZeroRtts="{FALSE}"), 10 if quick else 150, chk.seed + 11)
    rng.shuffle(qb)
    qjobs = [(b, rng.randrange(1 << 30), dict(c_cid_len=rng.choice([0, 4, 8]) or 4, s_cid_len=rng.choice([4, 8, 20]), pnlen={"c": rng.choice([1, 2]), "s": rng.choice([2, 4])},
                                              migrate_at=rng.choice([None, 5, 6, 7]), ts_step=rng.choice([None, 1, 7, 999_983])),
              dict(rnd_flow(rng, rng.choice([4, 6])), sport=443)) for b in qb[: 60 if quick else 1200]]
    for res in pool_map(_quic_one, qjobs):
        if "machinery" in res:
            raise Exception("replay failed in the harness: " + res["machinery"])
        chk.evaluations += 1
        chk.distinct.add(json.dumps(["quic", res["seed"], res["flow"]]))
        for b_ in res["bad"]:
            chk.violation("QUIC: " + b_, dict(behaviour=res["b"], seed=res["seed"], params=res["params"], flow=res["flow"], findings=res["bad"]))
    results = pool_map(_one, jobs)
    traces, rtr = [], []
    for res in results:
        if "machinery" in res:
            raise Exception("replay failed in the harness: " + res["machinery"])
        chk.evaluations += 1
        chk.distinct.add(json.dumps(res["sc"], sort_keys=True)[:4000])
        chk.sample(dict(flow=res["sc"]["conns"][0]["flow"], step_us=res["sc"]["step"], container=res["sc"].get("container")), limit=3)
        for b in res["bad"]:
            chk.violation(b, dict(scenario=res["sc"], findings=res["bad"]))
        for t in res["traces"] or []:
            t["_sc"] = res["sc"]
            traces.append(t)
        if res["events"]:
            rtr.append(dict(framing=res["framing"], events=res["events"], isn=res["isn"], sc=res["sc"]))
    validate_out(chk, traces)
    from harness.tracecheck import validate_reasm
    validate_reasm(chk, rtr)
    chk.rule = ("(a) Reasm schedules (cuts x hold/release x duplicates) and (b) TcpOut [d,n,k] sequences realised with random "
                "MAC/IP/port values, IPv4/IPv6, timestamp steps from 1 us to > 1 s, a third under nanosecond resolution; "
                "distinct = distinct scenarios")
    chk.assumptions += ["a duplicate segment's timestamp is not accepted as provenance (the first capture of the bytes counts)"]


def replay(chk, path):
    obj = json.load(open(path))
    r = _one(obj["scenario"])
    print(json.dumps(dict(bad=r.get("bad")), indent=1))
    return 1 if r.get("bad") else 0
