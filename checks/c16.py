"""C16 -- QUIC packet numbers are reconstructed as RFC 9000 Appendix A.3 defines.
Spec: spec/PnDecode.tla -- the code-shaped algorithm (first-packet shortcut, `largest` only raised) against the RFC
pseudo code.  TLC: exhaustive pointwise equivalence on scaled windows and all histories of <= MaxSteps packets with
gaps and reordering the sender may legally produce.  Apalache (spec/MC_PnDecode.tla): the same equivalence for ALL
largest in [0, 2^62), all four window sizes at their true widths, all truncated values (symbolic, no bound), plus a
refuted off-by-one variant as a sanity check of the encoding.
Conformance: the real QuicSession.get_full_packet_number is called through a stub packet on every boundary witness
of every branch predicate for every width, on seeded random points, and along histories (per space and direction,
interleaved); oracle = big-integer transcription of A.3 (wire/quicref.decode_pn_rfc)."""
import os
import random
import shutil
import subprocess
import tempfile
import time

from harness import tlc
from harness.core import MachineryError, pool_map, VERIF
from harness.runner import scratch
from wire.quicref import decode_pn_rfc
from wire.l2l4 import mk_flow, udp_frame

T62 = 1 << 62


def apalache(inv, expect_error=False):
    d = tempfile.mkdtemp(prefix="apa_", dir=scratch())
    shutil.copy(os.path.join(VERIF, "spec", "MC_PnDecode.tla"), d)
    t0 = time.time()
    try:
        p = subprocess.run(["apalache-mc", "check", f"--inv={inv}", "--length=0", f"--out-dir={d}/out", "MC_PnDecode.tla"],
                           cwd=d, capture_output=True, text=True, timeout=600)
        out = p.stdout + p.stderr
    except subprocess.TimeoutExpired:
        out = "TIMEOUT"
    shutil.rmtree(d, ignore_errors=True)
    ok = "The outcome is: NoError" in out
    err = "The outcome is: Error" in out
    if not (ok or err):
        raise MachineryError("apalache did not finish: " + out[-800:])
    return dict(inv=inv, no_error=ok, wall_s=round(time.time() - t0, 1))


class Stub:
    pass


def mk_session():
    from tlexport.packet import Packet
    from tlexport.quic.quic_session import QuicSession
    fr = udp_frame(mk_flow(0), "c", b"\xc0" + bytes(30))
    return QuicSession(Packet(fr, 1.0), [443], [], {})


def call(sess, isserver, ptype, largest, trunc, nbytes):
    from tlexport.quic.quic_session import PACKET_TYPE_MAP
    st = Stub()
    st.isserver, st.packet_type, st.packet_num = isserver, ptype, trunc.to_bytes(nbytes, "big")
    tab = sess.packet_number_server if isserver else sess.packet_number_client
    tab[PACKET_TYPE_MAP[ptype]] = largest
    res = sess.get_full_packet_number(st)
    return int.from_bytes(res, "big"), tab[PACKET_TYPE_MAP[ptype]]


def witnesses():
    pts = set()
    for nbytes in (1, 2, 3, 4):
        win = 1 << (8 * nbytes)
        hw = win // 2
        ls = {0, 1, 2, hw - 1, hw, hw + 1, win - 2, win - 1, win, win + 1, 3 * hw, (1 << 53) - 1, 1 << 53, (1 << 53) + 1, (1 << 61) + 12345,
              T62 - win - 2, T62 - win - 1, T62 - win, T62 - win + 1, T62 - hw, T62 - 2, 478803279554466565}
        for l in ls:
            if not 0 <= l < T62:
                continue
            e = l + 1
            base = e - (e % win)
            for t in {0, 1, hw - 1, hw, hw + 1, win - 2, win - 1, (e % win), (e - hw) % win, (e - hw - 1) % win, (e - hw + 1) % win,
                      (e + hw) % win, (e + hw + 1) % win, (e + hw - 1) % win}:
                pts.add((l, t % win, nbytes))
    return sorted(pts)


def _batch(pts):
    from tlexport.quic.quic_packet import QuicPacketType
    sess = mk_session()
    bad = []
    for (l, t, nb) in pts:
        want = decode_pn_rfc(l, t, 8 * nb)
        try:
            got, la = call(sess, bool((l + t) & 1), QuicPacketType.RTT_1, l, t, nb)
        except Exception as e:
            bad.append((l, t, nb, "exception " + repr(e)))
            continue
        if got != want:
            bad.append((l, t, nb, f"reconstructed {got}, RFC 9000 A.3 gives {want}"))
        elif la not in (l, max(l, want)):     # (raised at once, or left for later -- e.g. until the packet is authenticated; never anything else)
            bad.append((l, t, nb, f"largest after = {la}, expected {l} or {max(l, want)}"))
    return bad, len(pts)


def _history(seed):
    """packets of 2 directions x 3 spaces interleaved, each space with gaps / reordering / growing numbers"""
    from tlexport.quic.quic_packet import QuicPacketType
    from tlexport.quic.quic_session import PACKET_TYPE_MAP
    rng = random.Random(seed)
    sess = mk_session()
    types = [QuicPacketType.INITIAL, QuicPacketType.HANDSHAKE, QuicPacketType.RTT_1, QuicPacketType.RTT_O]
    largest = {}
    before = {}
    bad = []
    steps = []
    # packet-number spaces as RFC 9000 12.3 defines them (0-RTT and 1-RTT share the application data space) -- NOT taken from the code
    space = {QuicPacketType.INITIAL: "initial", QuicPacketType.HANDSHAKE: "handshake", QuicPacketType.RTT_1: "application", QuicPacketType.RTT_O: "application"}
    burst = None
    for _ in range(60):
        srv = rng.random() < 0.5
        pt = rng.choice(types)
        if burst:                      # e.g. a 0-RTT flight followed by 1-RTT packets of the same direction
            srv, pt = burst.pop(0)
        elif rng.random() < 0.1:
            burst = [(False, QuicPacketType.RTT_O)] * rng.randint(2, 5) + [(False, QuicPacketType.RTT_1)] * 2
        key = (srv, space[pt])
        l = largest.get(key, None)
        nb = rng.choice([1, 2, 3, 4])
        win = 1 << 8 * nb
        if l is None:
            pn = rng.choice([0, 0, 1, 3, rng.randrange(0, win // 2)])
        else:
            lo, hi = max(0, l + 1 - win // 2 + 1), l + win // 2
            pn = rng.choice([l + 1, l + 1, l + 2, rng.randint(lo, hi), rng.randint(lo, hi), max(lo, l - 1)])
        t = pn % win
        st = Stub()
        st.isserver, st.packet_type, st.packet_num = srv, pt, t.to_bytes(nb, "big")
        tab = sess.packet_number_server if srv else sess.packet_number_client
        if l is not None and PACKET_TYPE_MAP[pt] in tab and tab[PACKET_TYPE_MAP[pt]] != l:
            # the method did not raise `largest` itself on the previous packet of this space: an implementation may do that elsewhere (e.g. after
            # authentication, as RFC 9000 A.3 words it).  The pure function is judged here; that the session MAINTAINS `largest` is judged on real
            # sessions (trace clause `Ev.largest = largest[dir][space]` of TraceQuic on histories with gaps and reordering, below)
            if tab[PACKET_TYPE_MAP[pt]] != before.get(key):
                bad.append(f"history step {len(steps) + 1}: largest of the space is {tab[PACKET_TYPE_MAP[pt]]}, expected {l} (or untouched)")
                break
            tab[PACKET_TYPE_MAP[pt]] = l
        before[key] = tab.get(PACKET_TYPE_MAP[pt])
        got = int.from_bytes(sess.get_full_packet_number(st), "big")
        steps.append((srv, pt.name, pn, nb))
        if got != pn:
            bad.append(f"history step {len(steps)}: dir={'s' if srv else 'c'} space={pt.name} sent {pn} ({nb} bytes) after largest {l}: reconstructed {got}")
            break
        largest[key] = pn if l is None else max(l, pn)
    return bad, steps


def run(chk):
    quick = chk.tier == "quick"
    rng = random.Random(chk.seed)
    PN = dict(WinSet="{4, 8, 16}", Limit="128" if quick else "256", MaxSteps="3" if quick else "4", B="2", NIv="10", LowDigits="5")
    r = tlc.run("PnDecode", PN, invariants=["AlwaysRfc", "Agree", "NonceEq", "NonceInjective"], timeout=900)
    chk.tlc("PnDecode scaled: histories + pointwise + nonce", r)
    r = tlc.run("PnDecode", dict(PN, MaxSteps="0"), invariants=["NonceLowOnlyInjective"], timeout=300)
    chk.tlc("nonce from the low digits only (expected counterexample)", r, expect_ok=False)
    if r.violated != "NonceLowOnlyInjective":
        raise MachineryError("model: the low-digits-only nonce should be refuted")
    a1 = apalache("Agree")
    a2 = apalache("AgreeBad")
    chk.extra["apalache"] = [a1, a2]
    if not a1["no_error"]:
        raise MachineryError("Apalache refutes Code = Rfc at true width: the specification of the code-shaped algorithm is wrong")
    if a2["no_error"]:
        raise MachineryError("Apalache failed to refute the off-by-one variant: encoding is vacuous")
    pts = witnesses()
    nrand = 100_000 if quick else 1_500_000
    for _ in range(nrand):
        nb = rng.choice([1, 2, 3, 4])
        win = 1 << 8 * nb
        mode = rng.random()
        if mode < 0.4:
            l = rng.randrange(T62)
        elif mode < 0.7:
            l = rng.randrange(1 << rng.choice([8, 16, 24, 32, 40, 53, 54, 60]))
        else:
            l = max(0, T62 - rng.randrange(1, 4 * win))
        if rng.random() < 0.5:
            e = l + 1
            t = (e + rng.choice([-1, 1]) * (win // 2) + rng.randint(-2, 2)) % win
        else:
            t = rng.randrange(win)
        pts.append((l, t, nb))
    chunks = [pts[i::32] for i in range(32)]
    nb_bad = 0
    for bad, n in pool_map(_batch, chunks, chunksize=1):
        chk.evaluations += n
        for (l, t, nb, why) in bad:
            nb_bad += 1
            chk.violation(f"largest={l} truncated={t} length={nb}: {why}", dict(largest=l, trunc=t, nbytes=nb, why=why))
    chk.distinct |= {(l, t, nb) for l, t, nb in pts[:200000]}
    hs = pool_map(_history, [rng.randrange(1 << 30) for _ in range(400 if quick else 6000)])
    for bad, steps in hs:
        chk.evaluations += 1
        chk.traces_validated += 1
        for b in bad:
            chk.violation(b, dict(history=steps, why=b))
    # "... and uses as AEAD nonce": whole connections through QuicSession + QuicDecryptor whose 1-RTT packet numbers start anywhere
    # below 2^32 and grow past 2^8 .. 2^32 and beyond (jumps of up to 2^31 - 7 per packet, 4-byte encodings): a packet is exported
    # iff its nonce is the full reconstructed number (RFC 9001 5.3); behaviours from Quic.tla incl. key updates
    from checks import c02
    ku = dict(SuiteSet='{"1301","1303"}', OfferFirst='{"same"}', Splits='{<<1>>}', Retries="BOOLEAN", ZeroRtts="{FALSE}", MaxApp="6", MaxGen="2")
    behs = c02.gen(chk, ku, 12 if quick else 120, chk.seed + 5)
    rng.shuffle(behs)
    starts = [0, 255, (1 << 16) - 1, (1 << 24) - 2, 1 << 31, (1 << 32) - 300, (1 << 32) - 1]
    ejobs = []
    for b in behs[: 120 if quick else 2500]:
        # every space may start anywhere below 2^32 (a Retry does NOT restart the Initial numbering, RFC 9000 17.2.5.3); later packets use
        # the shortest encoding the observer can decode unless a huge gap forces four bytes
        pl = rng.choice([1, 2, 4])
        pm = dict(c_cid_len=rng.choice([0, 8]), s_cid_len=rng.choice([4, 8]), pnlen={"c": pl, "s": rng.choice([1, 2, 4])}, pn_gaps=rng.choice(["big", "huge", "huge"]),
                  init_token=rng.choice([0, 0, 5, 37, 300]), len_width=rng.choice([None, 2, 4]),
                  pn_start={"c": {"a": rng.choice(starts), "i": rng.choice([0, 0, 0x58CC0473, (1 << 16) - 1, (1 << 32) - 2]), "h": rng.choice([0, 70000])},
                            "s": {"a": rng.choice(starts), "i": rng.choice([0, 0, 0x1C904400]), "h": rng.choice([0, 255])}})
        ejobs.append((b, rng.randrange(1 << 30), pm, []))
    maxpn = 0
    for res in pool_map(c02._one, ejobs):
        if "machinery" in res:
            raise MachineryError("harness: " + res["machinery"])
        chk.evaluations += 1
        chk.traces_validated += 1
        maxpn = max([maxpn] + [m["pn"] for g in res["pkts"] for m in g])
        if not res["ok"]:
            chk.violation("connection with 1-RTT packet numbers from %s: %s" % (res["params"]["pn_start"], res["why"]),
                          dict(behaviour=res["b"], seed=res["seed"], params=res["params"], why=res["why"]))
    chk.extra["largest_packet_number_decrypted_end_to_end"] = maxpn
    # "histories of packets arriving with gaps and reordering" on real sessions: Quic.tla behaviours with a delayed datagram and packet-number gaps;
    # besides the export, the hook events are validated against TraceQuic -- the `largest` the session holds when it reconstructs a number must be
    # the maximum of the numbers of that space and direction processed before (never lowered by a late packet, never forgotten)
    late = c02.gen(chk, dict(ku, AllowLate="TRUE", MaxApp="5", Retries="{FALSE}"), 12 if quick else 150, chk.seed + 9)
    late = [b for b in late if [d["sn"] for d in b["hist"]] != sorted(d["sn"] for d in b["hist"])]
    rng.shuffle(late)
    ljobs = [(b, rng.randrange(1 << 30), dict(c_cid_len=rng.choice([0, 8]), s_cid_len=rng.choice([4, 8]), pnlen={"c": rng.choice([2, 3]), "s": rng.choice([2, 4])},
                                                pn_gaps=rng.choice([None, "small", "small"])), []) for b in late[: 150 if quick else 3000]]
    runs = []
    for res in pool_map(c02._one, ljobs):
        if "machinery" in res:
            raise MachineryError("harness: " + res["machinery"])
        chk.evaluations += 1
        if not res["ok"]:
            chk.violation("connection with a delayed datagram: %s" % res["why"], dict(behaviour=res["b"], seed=res["seed"], params=res["params"], why=res["why"]))
        elif res["events"]:
            runs.append(dict(events=res["events"], pkts=res["pkts"], b=res["b"], seed=res["seed"], params=res["params"], retry=res["b"]["retry"]))
    from harness.quictrace import validate_quic
    validate_quic(chk, runs)
    chk.extra["late_histories_trace_validated"] = len(runs)
    chk.sample(dict(boundary_witnesses=len(witnesses()), example=pts[5]))
    chk.sample(dict(history=hs[0][1][:8]))
    chk.rule = ("points (largest, truncated, length): every boundary witness of the three branch predicates for each width at largest in "
                "{0,1,2, hw-1..hw+1, win-2..win+1, 2^53-1..2^53+1, 2^62-win-2..2^62-2, ...} plus seeded random points (40% uniform in [0,2^62), "
                "half of them within +-2 of the half-window boundary); histories of 60 packets over 2 directions x 3 spaces; "
                "distinct = distinct points")
    chk.assumptions += ["the real method is reached through a stub packet object (attributes isserver, packet_type, packet_num), as the property's observe_at says"]


def replay(chk, path):
    import json
    o = json.load(open(path))
    if "largest" in o:
        bad, _ = _batch([(o["largest"], o["trunc"], o["nbytes"])])
        print(bad)
        return 1 if bad else 0
    return 0
