"""C11 -- with -c exactly the packets with a bad transport checksum are ignored.
Spec: spec/Checksum.tla (sum / fold loop / complement of checksums.py as a step relation; contract FoldInRange,
ResultIsRfc (RFC 1071 end-around-carry), FoldDecreases (termination), GateExact) checked exhaustively by TLC at a
scaled word width over every carry pattern; spec/MC_Checksum.tla gives the fold facts at the true 16-bit width for
all 32-bit sums (Apalache), and refutes the original loop bound.
Conformance: (a) the real ones_complement_checksum on byte strings steered into every class the model distinguishes
(no carry, one fold, two folds, sums that fold THROUGH exactly 0x10000, results 0x0000 / 0xFFFF); (b) end to end:
TLS and QUIC captures (IPv4/IPv6, odd and even lengths, checksums steered to 0x0000 / 0xFFFF / 0xFFFE / 0x0001 via
the TCP window or the client port), any subset of packets corrupted (payload bit, checksum field); the export of
`-c` must be byte-identical to the export without -c of the capture with the bad packets removed, and the verdict
of every `block` hook event must equal the independent RFC 1071 verifier's."""
import json
import os
import random
import shutil
import struct
import subprocess
import tempfile
import time

from harness import runner, tlc
from harness.core import MachineryError, pool_map, VERIF
from harness.runner import scratch
from harness.quicrun import build_conn as build_quic
from harness.tlsrun import suites
from wire import tlsref as R
from wire.capture import segment
from wire.container import pcapng_bytes
from wire.l2l4 import Endpoint, Flow, csum16, pseudo, raw_sum, tcp_segment, udp_datagram, ip_packet, eth_frame, mk_flow, PSH, ACK
from wire.tlsconn import TlsConn


def apalache(inv):
    d = tempfile.mkdtemp(prefix="apa_", dir=scratch())
    shutil.copy(os.path.join(VERIF, "spec", "MC_Checksum.tla"), d)
    t0 = time.time()
    try:
        p = subprocess.run(["apalache-mc", "check", f"--inv={inv}", "--length=0", f"--out-dir={d}/out", "MC_Checksum.tla"],
                           cwd=d, capture_output=True, text=True, timeout=600)
        out = p.stdout + p.stderr
    except subprocess.TimeoutExpired:
        out = "TIMEOUT"
    shutil.rmtree(d, ignore_errors=True)
    if "The outcome is:" not in out:
        raise MachineryError("apalache did not finish: " + out[-800:])
    return dict(inv=inv, no_error="The outcome is: NoError" in out, wall_s=round(time.time() - t0, 1))


def fold(s):
    while s >> 16:
        s = (s & 0xFFFF) + (s >> 16)
    return s


def steer_word(sum_without, target_checksum):
    """value X of a free 16-bit word so that the checksum over (everything + X) is target_checksum (None if impossible)"""
    want = (~target_checksum) & 0xFFFF          # folded sum we need
    base = fold(sum_without)
    for x in ((want - base) % 0xFFFF, ((want - base) % 0xFFFF) or 0xFFFF, 0xFFFF if (want - base) % 0xFFFF == 0 else None):
        if x is None:
            continue
        if fold(base + x) == want and 0 <= x <= 0xFFFF:
            return x
    return None


def function_level():
    """classes of pre-fold sums for the real ones_complement_checksum"""
    from tlexport.checksums import ones_complement_checksum
    rng = random.Random(11)
    cases = []
    def words(ws):
        return b"".join(struct.pack("!H", w) for w in ws)
    cases += [("no carry", words([1, 2, 3])), ("max without carry", words([0xFFFF])), ("exactly 0x10000", words([0xFFFF, 1])),
              ("one fold", words([0xFFFF, 0xFFFF, 5])), ("through 0x10000 (0x1ffff)", words([0xFFFF, 0xFFFF, 1])),
              ("through 0x10000 (0x2fffe)", words([0xFFFF, 0xFFFF, 0xFFFF, 1])), ("zero", words([0, 0])), ("empty", b""),
              ("odd length", b"\x12\x34\x56"), ("sum 0xffff twice -> checksum 0", words([0xFFFF, 0xFFFF])),
              ("two folds", words([0xFFFF] * 300 + [0xFFF0])), ("big", words([0xFFFF] * 700))]
    for _ in range(3000):
        n = rng.randint(0, 40)
        cases.append(("random", bytes(rng.getrandbits(8) for _ in range(n))))
    for k in range(2, 40):       # every sum congruent 1 mod 0xffff built from k words
        ws = [0xFFFF] * k + [1]
        cases.append((f"folds through 0x10000 with {k} words", words(ws)))
    bad = []
    for name, data in cases:
        want = csum16(data).to_bytes(2, "big")
        try:
            got = bytes(ones_complement_checksum(bytearray(data)))
        except Exception as e:
            bad.append((name, data.hex()[:60], "exception " + type(e).__name__ + ": " + str(e)[:80]))
            continue
        if got != want:
            bad.append((name, data.hex()[:60], f"got {got.hex()} want {want.hex()}"))
    return bad, len(cases)


def verify(frame):
    """independent RFC 1071 verdict of an Ethernet frame's transport checksum: True = correct"""
    ip = frame[14:]
    if ip[0] >> 4 == 4:
        ihl = (ip[0] & 15) * 4
        src, dst, proto, l4 = ip[12:16], ip[16:20], ip[9], ip[ihl:struct.unpack("!H", ip[2:4])[0]]
    else:
        src, dst, proto, l4 = ip[8:24], ip[24:40], ip[6], ip[40:40 + struct.unpack("!H", ip[4:6])[0]]
        while proto in (0, 43, 60):            # hop-by-hop, routing, destination options: the upper-layer protocol follows
            proto, l4 = l4[0], l4[8 + 8 * l4[1]:]
    if proto == 17 and l4[6:8] == b"\x00\x00":
        return len(src) == 4            # RFC 768: no checksum transmitted (IPv4 only); RFC 8200 8.1: over IPv6 a zero checksum is invalid
    return csum16(pseudo(src, dst, proto, len(l4)) + l4) == 0


def tcp_frames(seed, ipv, steer):
    """TLS connection; per packet the TCP window steers the checksum into a class"""
    rng = random.Random(seed)
    kinds = [(R.TLS13, 0x1301), (R.TLS12, 0xC02F), (R.TLS10, 0x002F), (R.TLS12, 0x003D)]
    ver, suite = kinds[seed % len(kinds)]
    c = TlsConn(ver, suites()[suite], seed=seed)
    for d, n in [("c", rng.randint(1, 60)), ("s", rng.randint(1, 900)), ("c", rng.randint(1, 60)), ("s", rng.randint(1, 900))]:
        c.app(d, n)
    fl = mk_flow(seed % 50, ipv=ipv, cport=rng.randint(1024, 65000))
    base = {"c": 1001, "s": 5001}
    sent = {"c": 0, "s": 0}
    frames = []
    # some record headers (or their first byte) travel as segments of their own: frames below the 60-byte Ethernet minimum (padding / trailer)
    from wire.capture import record_spans
    cuts = {d: sorted({o for s0, _e, _r in record_spans(c, d) for o in ((s0 + 5,) if rng.random() < 0.4 else (s0 + 1, s0 + 3) if rng.random() < 0.2 else ())}) for d in "cs"}
    for sg in segment(c, 0, cuts=cuts, mss=rng.choice([None, 301, 1460])):
        s, r = fl.ends(sg.d)
        o = "s" if sg.d == "c" else "c"
        target = rng.choice(steer)
        seg0 = tcp_segment(s.ip, r.ip, s.port, r.port, base[sg.d] + sg.off, base[o] + sent[o], PSH | ACK, sg.data, window=0)
        win = 0xFFFF
        if target is not None:
            body = seg0[:16] + b"\x00\x00" + seg0[18:]
            x = steer_word(raw_sum(pseudo(s.ip, r.ip, 6, len(body)) + body), target)
            win = x if x is not None else 0xFFFF
        seg = tcp_segment(s.ip, r.ip, s.port, r.port, base[sg.d] + sg.off, base[o] + sent[o], PSH | ACK, sg.data, window=win)
        sent[sg.d] = max(sent[sg.d], sg.off + len(sg.data))
        frames.append(eth_frame(s.mac, r.mac, ip_packet(s.ip, r.ip, 6, seg)))
    return frames, c.keylog


def udp_frames(seed, ipv, target):
    """QUIC connection; the client port steers the checksum of the client's first stream datagram into a class"""
    rng = random.Random(seed)
    b = dict(suite=rng.choice(["1301", "1302", "1303"]), first="same", split=[1], twoPkts=False, retry=False, zrtt=False, coalesce=True, cfApp=True,
             hist=[dict(d="c", pkts=[dict(t="I", d="c", gen=0, frames=[dict(ft="crypto", a="CH", b=1)])]),
                   dict(d="s", pkts=[dict(t="I", d="s", gen=0, frames=[dict(ft="other", a="ack", b=0), dict(ft="crypto", a="SH", b=1)]),
                                     dict(t="H", d="s", gen=0, frames=[dict(ft="crypto", a="SF", b=1)])]),
                   dict(d="c", pkts=[dict(t="I", d="c", gen=0, frames=[dict(ft="other", a="ack", b=0)]),
                                     dict(t="H", d="c", gen=0, frames=[dict(ft="crypto", a="CF", b=1)]),
                                     dict(t="A", d="c", gen=0, frames=[dict(ft="stream", a=1, b=0)])]),
                   dict(d="s", pkts=[dict(t="A", d="s", gen=0, frames=[dict(ft="other", a="done", b=0), dict(ft="stream", a=2, b=0)])]),
                   dict(d="c", pkts=[dict(t="A", d="c", gen=0, frames=[dict(ft="stream", a=3, b=0)])]),
                   dict(d="s", pkts=[dict(t="A", d="s", gen=0, frames=[dict(ft="stream", a=4, b=0)])])], out=[], kf=False)
    c, payload = build_quic(b, seed, dict(pnlen={"c": 2, "s": 2}))
    sport = rng.choice([443, 443, 4433, 8443, 50001])        # QUIC is recognised on any port: -c applies there too
    fl0 = mk_flow(seed % 50 + 60, ipv=ipv, cport=0, sport=sport)
    g = c.dgrams[4]                                   # a client datagram with stream data
    port = rng.randint(1024, 65000)
    if target is not None:
        dg0 = udp_datagram(fl0.client.ip, fl0.server.ip, 0, sport, g.payload, sum_override=0)
        x = steer_word(raw_sum(pseudo(fl0.client.ip, fl0.server.ip, 17, len(dg0)) + dg0), target)
        if x is not None and x >= 1024:
            port = x
    fl = Flow(Endpoint(fl0.client.mac, fl0.client.ip, port), fl0.server)
    frames = []
    for g in c.dgrams:
        s, r = fl.ends(g.d)
        frames.append(eth_frame(s.mac, r.mac, ip_packet(s.ip, r.ip, 17, udp_datagram(s.ip, r.ip, s.port, r.port, g.payload))))
    return frames, c.keylog


def corrupt(frame, how, rng):
    b = bytearray(frame)
    ip = 14
    if b[ip] >> 4 == 4:
        ihl = (b[ip] & 15) * 4
        proto = b[ip + 9]
        end = ip + struct.unpack("!H", bytes(b[ip + 2:ip + 4]))[0]
    else:
        ihl, proto = 40, b[ip + 6]
        end = ip + 40 + struct.unpack("!H", bytes(b[ip + 4:ip + 6]))[0]
        while proto in (0, 43, 60):
            proto, ihl = b[ip + ihl], ihl + 8 + 8 * b[ip + ihl + 1]
    l4 = ip + ihl
    hl = ((b[l4 + 12] >> 4) * 4) if proto == 6 else 8
    b_end = end
    ck = l4 + (16 if proto == 6 else 6)
    if how == "field":
        b[ck + rng.randrange(2)] ^= 1 << rng.randrange(8)
    elif how == "payload":
        pos = rng.randrange(l4 + hl, b_end)
        b[pos] ^= 1 << rng.randrange(8)
    elif how == "zero":             # checksum field 0x0000: "no checksum" for UDP over IPv4 (not bad), a wrong checksum everywhere else
        b[ck:ck + 2] = b"\x00\x00"
    elif how == "swapwords":       # exchanging two 16-bit words leaves a correct checksum correct: NOT bad
        p0 = l4 + hl
        if b_end - p0 >= 4:
            b[p0:p0 + 2], b[p0 + 2:p0 + 4] = b[p0 + 2:p0 + 4], b[p0:p0 + 2]
    return bytes(b)


def _one(job):
    seed, l4, ipv = job
    rng = random.Random(seed)
    from wire import l2l4 as _l
    _l.VARIATION.clear()
    _l.VARIATION.update(rng.choice([{}, {}, {"tcp_opts": 1}, {"ip6_ext": 1}, {"ip4_opts": 1}, {"eth_pad": 1}, {"eth_pad": 1}, {"eth_fcs": 1}, {"eth_pad": 1, "eth_fcs": 1}, {"tcp_opts": 1, "ip6_ext": 1, "ip4_opts": 1}]))
    var = dict(_l.VARIATION)
    try:
        return _one2(job, rng, var)
    finally:
        _l.VARIATION.clear()


def _one2(job, rng, var):
    seed, l4, ipv = job
    try:
        if l4 == "tcp":
            frames, keylog = tcp_frames(seed, ipv, steer=[None, None, 0x0000, 0xFFFF, 0xFFFE, 0x0001, 0x8000])
        else:
            frames, keylog = udp_frames(seed, ipv, target=rng.choice([None, 0x0000, 0xFFFF, 0xFFFE, 0x0001]))
    except Exception:
        import traceback
        return dict(machinery=traceback.format_exc()[-1500:])
    pk = []
    for i, fr in enumerate(frames):
        how = rng.choice([None, None, None, "field", "payload", "swapwords", "zero", "damaged_then_retransmitted", "retransmitted_damaged"])
        if how == "damaged_then_retransmitted":         # a copy damaged in transit (checksum field as sent) is followed by the intact retransmission
            pk += [corrupt(fr, "payload", rng), fr]
        elif how == "retransmitted_damaged":            # ... or the intact segment by a damaged retransmission
            pk += [fr, corrupt(fr, "payload", rng)]
        else:
            pk.append(corrupt(fr, how, rng) if how else fr)
    verdict = [verify(fr) for fr in pk]
    ts0 = 1_700_000_000_000_000
    kl = "\n".join(keylog) + "\n"
    with_c = runner.run_inproc(pcapng_bytes([(ts0 + 997 * i, fr) for i, fr in enumerate(pk)]), kl, opts=["-c"], trace=True)
    filt = runner.run_inproc(pcapng_bytes([(ts0 + 997 * i, fr) for i, fr in enumerate(pk) if verdict[i]]), kl)
    bad = []
    if with_c.crashed:
        bad.append("-c run aborted: " + with_c.exc.strip().splitlines()[-1])
    elif filt.crashed:
        bad.append("reference run (no -c, bad packets removed) aborted: " + filt.exc.strip().splitlines()[-1])
    elif with_c.out != filt.out:
        bad.append("export with -c differs from the export without -c of the capture with the bad packets removed")
    ev = [e for e in with_c.events if e["ev"] == "block" and e["kind"] in ("tcp", "udp")]
    if not with_c.crashed and len(ev) == len(pk):
        for i, e in enumerate(ev):
            if bool(e["csum_ok"]) != verdict[i]:
                ck = pk[i][14 + (20 if pk[i][14] >> 4 == 4 else 40) + (16 if l4 == "tcp" else 6):][:2].hex()
                bad.append(f"packet {i} ({l4}/IPv{ipv}, lower-layer variation {var}, checksum field {ck}, {len(pk[i])} bytes): verdict {'ok' if e['csum_ok'] else 'bad'}, RFC 1071 says {'ok' if verdict[i] else 'bad'}")
                break
    cks = [pk[i][14 + (20 if pk[i][14] >> 4 == 4 else 40) + (16 if l4 == "tcp" else 6):][:2].hex() for i in range(len(pk))]
    return dict(seed=seed, l4=l4, ipv=ipv, bad=bad, nbad=verdict.count(False), n=len(pk), events=len(ev), cks=cks)


def run(chk):
    quick = chk.tier == "quick"
    rng = random.Random(chk.seed)
    r = tlc.run("Checksum", dict(W="4", MaxWords="4" if quick else "5", MaxPkts="3"), invariants=["FoldInRange", "ResultIsRfc", "GateExact"],
                properties=["FoldDecreases"], timeout=900)
    chk.tlc("Checksum scaled (W=4)", r)
    a1, a2 = apalache("FixedOk"), apalache("OrigOk")
    chk.extra["apalache"] = [a1, a2]
    if not a1["no_error"] or a2["no_error"]:
        raise MachineryError(f"Apalache: FixedOk must hold and OrigOk must be refuted, got {a1} {a2}")
    fb, n = function_level()
    chk.evaluations += n
    for name, data, why in fb:
        chk.violation(f"ones_complement_checksum, class '{name}', input {data}...: {why}", dict(cls=name, data=data, why=why))
    jobs = [(rng.randrange(1 << 30), l4, ipv) for l4 in ("tcp", "udp") for ipv in (4, 6) for _ in range(60 if quick else 1500)]
    seen_ck = set()
    for res in pool_map(_one, jobs):
        if "machinery" in res:
            raise Exception("harness: " + res["machinery"])
        chk.evaluations += 1
        chk.traces_validated += 1 if res["events"] == res["n"] else 0
        chk.distinct.add((res["seed"], res["l4"], res["ipv"]))
        seen_ck |= set(res["cks"]) & {"0000", "ffff", "fffe", "0001"}
        chk.sample(dict(l4=res["l4"], ipv=res["ipv"], packets=res["n"], corrupted=res["nbad"], checksum_fields=res["cks"][:6]), limit=3)
        for b in res["bad"]:
            chk.violation(f"{res['l4']}/IPv{res['ipv']} seed {res['seed']}: {b}", dict(seed=res["seed"], l4=res["l4"], ipv=res["ipv"], why=b))
    chk.extra["special_checksum_values_seen"] = sorted(seen_ck)
    chk.rule = ("(a) byte strings per pre-fold-sum class of the model + 3000 random strings against the real checksum routine; (b) TLS and QUIC "
                "captures over IPv4/IPv6 with per-packet steering of the checksum value into {0x0000, 0xFFFF, 0xFFFE, 0x0001, 0x8000, free} and "
                "a random subset of packets damaged (checksum field bit, payload bit) or changed without invalidating the checksum "
                "(word swap); distinct = distinct captures")
    chk.assumptions += ["a UDP checksum field of zero over IPv4 means 'no checksum' (RFC 768) and is not a wrong checksum"]


def replay(chk, path):
    o = json.load(open(path))
    if "seed" in o:
        r = _one((o["seed"], o["l4"], o["ipv"]))
        print(r.get("bad"))
        return 1 if r.get("bad") else 0
    return 0
