"""C10 -- server-port selection and port mapping behave as documented.
Spec: spec/Options.tla -- code-shaped option handling (server_ports list incl. the default of -p, MapPortsAction / bare
-m, get_port_map, role decision by the first packet's ports, port choice in both output builders) against the
documented behaviour; TLC enumerates every combination of -p subsets x -m forms x server/client ports x TLS/QUIC.
Conformance: real argument vectors (in-process for all, a sample as real subprocesses) on captures with several TLS
and QUIC connections towards ports inside and outside the lists; the observer reads the ports from the output
packet headers and checks the absence of any output for unselected TCP ports."""
import itertools
import json
import random

from checks import options_cfg
from harness import runner, tlc
from harness.core import pool_map
from harness.quicrun import build_conn as build_quic
from harness.tlsrun import suites
from observe.pcapng import Observation
from wire import tlsref as R
from wire.capture import tcp_capture
from wire.container import pcapng_bytes
from wire.l2l4 import mk_flow, udp_frame
from wire.tlsconn import TlsConn

SPORTS = [443, 8443, 4433, 5000, 44330]
QB = dict(suite="1301", first="same", split=[1], twoPkts=False, retry=False, zrtt=False, coalesce=True, cfApp=True,
          hist=[dict(d="c", pkts=[dict(t="I", d="c", gen=0, frames=[dict(ft="crypto", a="CH", b=1)])]),
                dict(d="s", pkts=[dict(t="I", d="s", gen=0, frames=[dict(ft="other", a="ack", b=0), dict(ft="crypto", a="SH", b=1)]),
                                  dict(t="H", d="s", gen=0, frames=[dict(ft="crypto", a="SF", b=1)])]),
                dict(d="c", pkts=[dict(t="I", d="c", gen=0, frames=[dict(ft="other", a="ack", b=0)]),
                                  dict(t="H", d="c", gen=0, frames=[dict(ft="crypto", a="CF", b=1)]),
                                  dict(t="A", d="c", gen=0, frames=[dict(ft="stream", a=1, b=0)])]),
                dict(d="s", pkts=[dict(t="A", d="s", gen=0, frames=[dict(ft="other", a="done", b=0), dict(ft="stream", a=2, b=0)])])], out=[], kf=False)


def argv_for(popt, mform, commas):
    a = []
    if popt:
        a += ["-p"] + [str(p) for p in popt]
    kind, pairs = mform
    if kind == "bare":
        a += ["-m"]
    elif kind == "pairs":
        a += ["-m"] + [f"{s}:{o}" + ("," if commas and i < len(pairs) - 1 else "") for i, (s, o) in enumerate(pairs)]
    return a


def documented(proto, sport, popt, mform):
    watched = {443, 44330} | set(popt)
    if proto == "tls" and sport not in watched:
        return None
    kind, pairs = mform
    if kind == "absent":
        return sport
    pm = {443: 8080} if kind == "bare" else dict(pairs)
    return pm.get(sport, 8080)


def build_capture(seed):
    rng = random.Random(seed)
    frames, keylog, conns = [], [], []
    for i, sp in enumerate(SPORTS):
        for cp in (40000, 50000):
            if rng.random() < 0.35 and not (sp == 443 and cp == 40000):
                continue
            fl = mk_flow(len(conns), ipv=rng.choice([4, 6]), cport=cp, sport=sp)
            c = TlsConn(R.TLS12, suites()[0xC02F], seed=seed + len(conns))
            c.app("c", 20 + len(conns))
            c.app("s", 200 + len(conns))
            cap = tcp_capture([c], [fl], isns=[(100 + len(conns), 900 + len(conns))])
            frames.append([fr for _t, fr in cap.pkts])
            keylog += c.keylog
            conns.append(dict(proto="tls", sport=sp, cport=cp, flow=fl, truth=(c.truth("c"), c.truth("s"))))
    for sp in (443, 8443, 5000):
        fl = mk_flow(len(conns), ipv=rng.choice([4, 6]), cport=rng.choice([40000, 50000]), sport=sp)
        qc, payload = build_quic(QB, seed + len(conns), dict(pnlen={"c": 2, "s": 2}))
        frames.append([udp_frame(fl, g.d, g.payload) for g in qc.dgrams])
        keylog += qc.keylog
        conns.append(dict(proto="quic", sport=sp, cport=fl.client.port, flow=fl, truth=[(g.d, g.stream) for g in qc.dgrams if g.stream]))
    # round-robin merge in a seeded connection order with staggered starts (which connection -- TLS or QUIC, to which port -- is seen
    # first must not matter for the role / port decision of the others)
    merged, idx = [], [0] * len(frames)
    order = list(range(len(frames)))
    rng.shuffle(order)
    start = {i: rng.choice([0, 0, 3, 9]) for i in order}
    rnd = 0
    while any(idx[i] < len(frames[i]) for i in range(len(frames))):
        for i in order:
            if idx[i] < len(frames[i]) and rnd >= start[i]:
                merged.append(frames[i][idx[i]])
                idx[i] += 1
        rnd += 1
    ts0 = 1_700_000_000_000_000
    return pcapng_bytes([(ts0 + 1009 * i, fr) for i, fr in enumerate(merged)]), keylog, conns


def judge(out, conns, popt, mform):
    o = Observation(out)
    bad = list(o.problems[:2])
    used = set()
    for c in conns:
        f = c["flow"]
        want = documented(c["proto"], c["sport"], popt, mform)
        if c["proto"] == "tls":
            found = [cv for cv in o.convs.values() if cv["client"] == (f.client.ip, f.client.port) and cv["server"] is not None and cv["server"][0] == f.server.ip]
            if want is None:
                if found:
                    bad.append(f"TCP flow to unselected port {c['sport']} was exported (server port {found[0]['server'][1]})")
                continue
            if not found:
                bad.append(f"TLS flow {c['cport']}->{c['sport']}: nothing exported (expected server port {want}, client port {c['cport']})")
                continue
            if len(found) > 1 or found[0]["server"][1] != want:
                bad.append(f"TLS flow {c['cport']}->{c['sport']}: exported server port {[x['server'][1] for x in found]}, documented {want}")
            elif (found[0]["streams"]["c"], found[0]["streams"]["s"]) != c["truth"]:
                bad.append(f"TLS flow {c['cport']}->{c['sport']}: payload wrong")
        else:
            dg = o.udp_dgrams(f.client.ip, f.client.port, f.server.ip, want)
            if [(d, pl) for d, _t, pl, _a, _b in dg] != c["truth"]:
                others = sorted({i["sport"] if i["src"] == f.server.ip else i["dport"] for i in o.packets if i["l4"] == "udp" and {i["src"], i["dst"]} == {f.client.ip, f.server.ip}})
                bad.append(f"QUIC flow {c['cport']}->{c['sport']}: documented exported server port {want} (client port unchanged), observed server-side ports {others}")
    return bad


def _one(job):
    seed, popt, mform, commas, sub = job
    try:
        data, keylog, conns = build_capture(seed)
    except Exception:
        import traceback
        return dict(machinery=traceback.format_exc()[-1500:])
    args = argv_for(popt, mform, commas)
    kl = "\n".join(keylog) + "\n"
    res = runner.run_subprocess(data, kl, opts=args) if sub else runner.run_inproc(data, kl, opts=args)
    if res.crashed or res.out is None:
        return dict(seed=seed, args=args, bad=["run aborted: " + (res.exc or res.stdout or "no output").strip().splitlines()[-1]], sub=sub)
    return dict(seed=seed, args=args, bad=judge(res.out, conns, popt, mform), sub=sub, nconn=len(conns))


def run(chk):
    quick = chk.tier == "quick"
    rng = random.Random(chk.seed)
    r = tlc.run("Options", options_cfg.CONSTS, invariants=["AsDocumented"], timeout=600)
    chk.tlc("Options all combinations", r)
    chk.exhaustive = True
    jobs = []
    popts = [(), (8443,), (4433,), (8443, 4433), (4433, 8443, 5000)]
    for popt in popts:
        for mform in options_cfg.MAPFORMS:
            for commas in ((False, True) if mform[0] == "pairs" and len(mform[1]) > 1 else (False,)):
                for _ in range(1 if quick else 6):
                    jobs.append((rng.randrange(1 << 30), popt, mform, commas, False))
    for j in rng.sample(jobs, 8 if quick else 40):
        jobs.append((j[0], j[1], j[2], j[3], True))
    for res in pool_map(_one, jobs, chunksize=1):
        if "machinery" in res:
            raise Exception("harness: " + res["machinery"])
        chk.evaluations += 1
        chk.traces_validated += 1
        chk.distinct.add(json.dumps(res["args"]))
        chk.sample(dict(argv=res["args"], subprocess=res["sub"], connections=res.get("nconn")), limit=3)
        for b in res["bad"]:
            chk.violation(f"argv {res['args']}: {b}", dict(seed=res["seed"], argv=res["args"], why=b))
    chk.rule = ("argument vectors = 5 -p lists x 6 -m forms (absent, bare, 1-2 pairs, identity / low ports) x with/without commas, each on a capture "
                "with up to 10 TLS connections towards {443, 8443, 4433, 5000, 44330} from client ports {40000, 50000} and 3 QUIC connections; "
                "distinct = distinct argument vectors")


def replay(chk, path):
    return 0
