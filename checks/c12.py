"""C12 -- the export does not depend on the capture container.
Spec: spec/Container.tla -- the pcapng / pcap readers as a block-by-block step relation (divisor and offset from the
interface description, EPB -> (time, frame), DSB -> keys, other blocks skipped); TLC enumerates format x byte order x
if_tsresol (powers of 10 and 2) x if_tsoffset x unrelated blocks at every position and checks
YieldedIndependentOfContainer.
Conformance: base captures (TLS of several kinds, QUIC, multi-connection) are written in every container variant by
the independent writers of /verif/wire (legacy pcap LE/BE with -l, pcapng LE/BE, if_tsresol absent / 10^-3 / 10^-6 /
10^-9 / 2^-10 / 2^-20, if_tsoffset absent / 0 / +3600, NRB / ISB / custom blocks before the IDB, between and after
the packets, section-header options) and run through the working tree; outputs must be byte-identical across all
variants (timestamps are chosen representable in every resolution; under nanosecond resolution additional
sub-microsecond parts must leave everything within 1 us)."""
import hashlib
import itertools
import json
import random

from checks import c01
from harness import runner, tlc
from harness.core import pool_map
from harness.tlsrun import build_tls_capture
from observe.pcapng import Observation
from wire import tlsref as R
from wire.container import pcap_bytes, pcapng_bytes

RES = [None, 3, 6, 9, 0x80 | 10, 0x80 | 20]
OFFS = [None, 0, 3600, -86400]
EXTRA = [(), ("nrb",), ("isb", "custom"), ("custom", "nrb", "isb"), ("spb",), ("spb", "nrb", "spb")]   # spb: a Simple Packet Block holding a frame of no connection


def variants(quick, rng):
    vs = [dict(fmt="pcap", le=True), dict(fmt="pcap", le=False)]      # (nanosecond-magic pcap files are not in the property's list)
    allv = [dict(fmt="pcapng", le=le, tsresol=r, tsoffset=o, extra=e, where=w, pre=pre, shb=shb)
            for le in (True, False) for r in RES for o in OFFS for e in EXTRA for w in ("start", "mid", "end", "spread")
            for pre in (False, True) for shb in (False, True) if not (e == () and (w != "start" or pre))]
    if quick:
        allv = rng.sample(allv, 90) + [v for v in allv if v["extra"] == () and not v["shb"]][:36]
    # two interfaces in one section (e.g. merged captures), each with its own resolution / offset; packets alternate between them
    two = [dict(fmt="pcapng", le=le, tsresol=r1, tsoffset=o1, extra=(), where="start", pre=False, shb=False, second_if=[r2, o2])
           for le in (True, False) for r1, r2 in ((None, 9), (6, 3), (9, 0x80 | 20), (3, None)) for o1, o2 in ((None, None), (None, 3600), (3600, 0))]
    # the secrets travel inside the capture (a decryption secrets block at any legal position, also before the first interface description)
    dsb = [dict(fmt="pcapng", le=le, tsresol=r, tsoffset=None, extra=e, where="spread", pre=False, shb=False, dsb=w)
           for le in (True, False) for r in (None, 9) for e in ((), ("nrb", "isb")) for w in ("pre", "start", "mid", "end")]
    # obsolete Packet Blocks (type 2: 16-bit interface id + 16-bit drops count) instead of Enhanced Packet Blocks, one and two interfaces
    pbs = [dict(fmt="pcapng", le=le, tsresol=r1, tsoffset=o1, extra=(), where="start", pre=False, shb=False, pb=drops, **({"second_if": [r2, o2]} if r2 != "-" else {}))
           for le in (True, False) for drops in (0, 1, 7) for r1, o1, r2, o2 in ((None, None, "-", None), (9, None, None, None), (3, 3600, 9, 0), (None, None, 6, 3600))]
    # the secrets text inside a secrets block need not end with a line feed, nor have a length that is a multiple of four
    raw = [dict(fmt="pcapng", le=le, tsresol=None, tsoffset=None, extra=(), where="start", pre=False, shb=False, dsb=w, dsbtrim=k)
           for le in (True, False) for w in ("start", "end") for k in (0, 1, 2, 3)]
    # if_snaplen 0 ("no limit") or a limit no packet exceeds; a first interface of another link type (cooked "any") that carries one stray packet
    # while every packet of the capture proper is on the second, Ethernet, interface
    snap = [dict(fmt="pcapng", le=le, tsresol=r, tsoffset=o, extra=(), where="start", pre=False, shb=False, snaplen=sn, **({"second_if": [None, None]} if two_ else {}))
            for le in (True, False) for r, o in ((None, None), (9, -86400)) for sn in (0, 65535) for two_ in (False, True)]
    cooked = [dict(fmt="pcapng", le=le, tsresol=r1, tsoffset=o1, extra=e, where="spread", pre=False, shb=False, second_if=[r2, o2], cooked=True)
              for le in (True, False) for e in ((), ("nrb", "isb")) for r1, o1, r2, o2 in ((None, None, None, None), (9, None, 6, 3600), (6, -86400, 9, None))]
    allv += snap + cooked if not quick else rng.sample(snap, 6) + rng.sample(cooked, 5)
    return vs + allv + (two if not quick else rng.sample(two, 8)) + (dsb if not quick else rng.sample(dsb, 10)) + \
        (pbs if not quick else rng.sample(pbs, 8)) + (raw if not quick else rng.sample(raw, 6))


def render(pkts, v, kl=""):
    if v["fmt"] == "pcap":
        return pcap_bytes(pkts, le=v["le"], nano=v.get("nano", False)), True
    n = len(pkts)
    pos = {"start": [0] * 3, "mid": [n // 2] * 3, "end": [n] * 3, "spread": [1, n // 2, n]}[v["where"]]
    extra = [(pos[i], k) for i, k in enumerate(v["extra"])]
    w = v.get("dsb")
    if "dsbtrim" in v:                  # no final line feed; a leading comment of k characters moves the length through the residues mod 4
        kl = "#" * v["dsbtrim"] + ("\n" if v["dsbtrim"] else "") + kl.rstrip("\n")
    pre = (("nrb",) if v["pre"] and v["extra"] else ()) + ((("dsb", kl.encode()),) if w == "pre" else ())
    return pcapng_bytes(pkts, le=v["le"], tsresol=v["tsresol"], tsoffset=v["tsoffset"], extra=extra,
                        dsbs=[({"start": 0, "mid": n // 2, "end": n}[w], kl.encode())] if w in ("start", "mid", "end") else (),
                        pre_idb=pre, shb_opts=v["shb"], packet_block=v.get("pb"),
                        second_if=tuple(v["second_if"]) if v.get("second_if") else None, snaplen=v.get("snaplen", 0x40000),
                        cooked_first=bool(v.get("cooked"))), False


def _one_quic(job):
    """a QUIC connection whose datagrams are captured 1 us apart (a burst), in containers of different timestamp resolution: the same
    datagrams, the same export (how a reader turns ticks into a float must not decide which datagrams belong together)"""
    from checks import c04
    from harness.quicrun import build_conn
    from wire.capture import Capture, udp_capture
    from wire.l2l4 import mk_flow
    seed, suite, step = job
    try:
        b = c04.std_quic_beh(suite)
        A = lambda d, fr: dict(d=d, pkts=[dict(t="A", d=d, gen=0, frames=fr)])
        S = lambda i: dict(ft="stream", a=i, b=0)
        b["hist"] += [A("s", [S(10 + i)]) for i in range(12)] + [A("c", [S(30 + i)]) for i in range(6)]
        for i, dg in enumerate(b["hist"]):
            dg["sn"] = i + 1
        c, payload = build_conn(b, seed, dict(pnlen={"c": 2, "s": 2}))
        fl = mk_flow(0)
        cap = udp_capture([(fl, g.d, g.payload, g) for g in c.dgrams], cap=Capture(ts0=1_700_000_000_000_000 + seed % 1000, step=step))
    except Exception:
        import traceback
        return dict(machinery=traceback.format_exc()[-1500:])
    kl = "\n".join(c.keylog) + "\n"
    shas, bad = {}, []
    vs = [dict(fmt="pcap", le=True), dict(fmt="pcap", le=False)] + [dict(fmt="pcapng", le=le, tsresol=r, tsoffset=o) for le in (True, False) for r in (None, 6, 9, 0x80 | 20, 0x80 | 30)
                                                                      for o in (None, 3600)]
    if step == 1:
        # the same burst 500 ns / 700 ns apart in containers that can say so (10^-9, 2^-30): different capture times, so still one exported datagram
        # per captured datagram (the reader's float keeps about 240 ns at today's epoch; closer stamps would collide and fall under C02's caveat)
        vs += [dict(fmt="pcapng", le=le, tsresol=r, tsoffset=None, sub=ns) for le in (True, False) for r in (9, 0x80 | 30) for ns in (500, 700)]
    for v in vs:
        if v.get("sub"):
            t0n = cap.pkts[0][0] * 1000
            data, legacy = pcapng_bytes([((t0n + i * v["sub"], 10 ** 9), fr) for i, (_t, fr) in enumerate(cap.pkts)], le=v["le"], tsresol=v["tsresol"]), False
        elif v["fmt"] == "pcap":
            data, legacy = pcap_bytes(cap.pkts, le=v["le"]), True
        else:
            data, legacy = pcapng_bytes(cap.pkts, le=v["le"], tsresol=v["tsresol"], tsoffset=v["tsoffset"]), False
        res = runner.run_inproc(data, kl, legacy=legacy)
        if res.crashed or res.out is None:
            bad.append((v, "run aborted: " + (res.exc or "no output").strip().splitlines()[-1]))
            continue
        o = Observation(res.out)
        key = json.dumps([[p["sport"], p["dport"], p["payload"].hex() if isinstance(p["payload"], (bytes, bytearray)) else str(p["payload"])] for p in o.packets])
        shas.setdefault(hashlib.sha256(key.encode()).hexdigest(), []).append(v)
    if len(shas) > 1:
        ref = max(shas.items(), key=lambda kv: len(kv[1]))[0]
        for sha, vl in shas.items():
            if sha != ref:
                bad.append((vl[0], f"QUIC datagrams {step} us apart: the exported datagrams (payloads, order) differ from the majority of container variants ({len(vl)} variant(s))"))
    return dict(bad=bad, n=len(vs), seed=seed, suite=suite, step=step)


def rng_off(r_, le_):
    return None if r_ in (None, 6) else (1000 if le_ else 0)


def _one(job):
    sc, vs = job
    try:
        cap, keylog, conns, flows = build_tls_capture(sc)
    except Exception:
        import traceback
        return dict(machinery=traceback.format_exc()[-1500:])
    kl = "\n".join(keylog) + "\n"
    t0 = 1_700_000_000 * 10 ** 6
    pkts = [(t0 + 125_000 * i, fr) for i, (_t, fr) in enumerate(cap.pkts)]      # eighths of a second: exact in every resolution
    shas, bad = {}, []
    for v in vs:
        data, legacy = render(pkts, v, kl)
        res = runner.run_inproc(data, None if v.get("dsb") else kl, legacy=legacy)
        if res.crashed or res.out is None:
            bad.append((v, "run aborted: " + (res.exc or "no output").strip().splitlines()[-1]))
            continue
        shas.setdefault(hashlib.sha256(res.out).hexdigest(), []).append(v)
    ref = max(shas.items(), key=lambda kv: len(kv[1]))[0] if shas else None
    for sha, vl in shas.items():
        if sha != ref:
            bad.append((vl[0], f"output differs from the majority of container variants ({len(vl)} variant(s) with this output, {len(shas[ref])} with the majority's)"))
    # whole-second capture times: if_tsresol 0 (10^0) and 0x80 (2^0) are legal resolutions, next to explicit / absent microseconds
    ps = [(t0 + 3_000_000 * i, fr) for i, (_t, fr) in enumerate(cap.pkts)]
    sec = {}
    for r_ in (None, 6, 0, 0x80, 3, 0x80 | 1):
        for le_ in (True, False):
            res = runner.run_inproc(pcapng_bytes(ps, le=le_, tsresol=r_, tsoffset=rng_off(r_, le_)), kl)
            if res.crashed or res.out is None:
                bad.append((dict(tsresol=r_, le=le_, whole_seconds=True), "run aborted: " + (res.exc or "no output").strip().splitlines()[-1]))
            else:
                sec.setdefault(hashlib.sha256(res.out).hexdigest(), []).append(dict(tsresol=r_, le=le_, whole_seconds=True))
    if len(sec) > 1:
        ref2 = max(sec.items(), key=lambda kv: len(kv[1]))[0]
        for sha, vl in sec.items():
            if sha != ref2:
                bad.append((vl[0], f"whole-second capture times: output differs from the other resolutions ({len(vl)} variant(s) with this output)"))
    # sub-microsecond parts under ns resolution: everything within 1 us
    p2 = [((ts * 1000 + (i * 377) % 1000, 10 ** 9), fr) for i, (ts, fr) in enumerate(pkts)]
    res = runner.run_inproc(pcapng_bytes(p2, tsresol=9), kl)
    if res.out is not None and ref is not None:
        o = Observation(res.out)
        base = Observation(runner.run_inproc(render(pkts, dict(fmt="pcapng", le=True, tsresol=None, tsoffset=None, extra=(), where="start", pre=False, shb=False))[0], kl).out)
        if [(p["payload"], p.get("seq")) for p in o.packets] != [(p["payload"], p.get("seq")) for p in base.packets]:
            bad.append((dict(tsresol=9, sub=True), "packets differ under nanosecond resolution"))
        elif any((a["ts"] - b["ts"]) * 10 ** 6 not in (0, 1) for a, b in zip(o.packets, base.packets)):   # base = floor(true time) in us
            bad.append((dict(tsresol=9, sub=True), "timestamps differ by 1 us or more under nanosecond resolution"))
    return dict(sc=sc, bad=bad, n=len(vs) + 1, outputs=len(shas))


def run(chk):
    quick = chk.tier == "quick"
    rng = random.Random(chk.seed)
    CC = dict(NPkts="3", Resols='{"none","d3","d6","d9","b10","b20"}', Offsets="{0,3600,-3600}", ExtraKinds="{0,1,2,3}", PerInterface="TRUE")
    r = tlc.run("Container", CC, invariants=["YieldedIndependentOfContainer", "YieldedIsPrefix", "KeysYielded"], timeout=600)
    chk.tlc("Container variants", r)
    r0 = tlc.run("Container", dict(CC, PerInterface="FALSE", ExtraKinds="{}"), invariants=["YieldedIndependentOfContainer"], timeout=600)
    chk.tlc("Container: original reader (first interface's parameters for all) - documents the repaired defect", r0, expect_ok=False)
    vs = variants(quick, rng)
    bases = []
    kinds = [(R.TLS13, 0x1301), (R.TLS12, 0xC02F), (R.TLS10, 0x002F)] if quick else [(R.TLS13, 0x1301), (R.TLS13, 0x1303), (R.TLS12, 0xC02F), (R.TLS12, 0x003C),
                                                                                      (R.TLS11, 0x002F), (R.TLS10, 0x0005), (R.SSL30, 0x000A)] * 5
    for i, (ver, suite) in enumerate(kinds):
        conns = [dict(ver=ver, suite=suite, seed=chk.seed + i, shape={}, app=[["c", 30], ["s", 700], ["c", 8], ["s", 2000]], flow=dict(idx=0, ipv=rng.choice([4, 6])), mss=rng.choice([None, 500]))]
        if i % 2:
            conns.append(dict(ver=R.TLS12, suite=0xC030, seed=chk.seed + 100 + i, shape={}, app=[["c", 5], ["s", 50]], flow=dict(idx=1)))
        bases.append(dict(conns=conns))
    for res in pool_map(_one, [(b, vs) for b in bases], chunksize=1):
        if "machinery" in res:
            raise Exception("harness: " + res["machinery"])
        chk.evaluations += res["n"]
        chk.traces_validated += res["n"]
        chk.sample(dict(base=[(R.VNAME[c["ver"]], hex(c["suite"])) for c in res["sc"]["conns"]], variants=res["n"], distinct_outputs=res["outputs"]), limit=3)
        for v, why in res["bad"]:
            chk.violation(f"container {v}: {why}", dict(scenario=res["sc"], variant=v, why=why))
    qj = [(rng.randrange(1 << 30), st, step) for st in (["1301", "1303"] if quick else ["1301", "1302", "1303", "1304"]) for step in (1, 2, 1009)]
    for res in pool_map(_one_quic, qj, chunksize=1):
        if "machinery" in res:
            raise Exception("harness: " + res["machinery"])
        chk.evaluations += res["n"]
        chk.traces_validated += res["n"]
        for v, why in res["bad"]:
            chk.violation(f"container {v}: {why}", dict(quic=[res["seed"], res["suite"], res["step"]], variant=v, why=why))
    chk.distinct |= {json.dumps(v, sort_keys=True) for v in vs}
    chk.rule = ("container variants = legacy pcap (LE, BE; with -l) + pcapng {LE, BE} x if_tsresol {absent, 10^-3, 10^-6, 10^-9, 2^-10, "
                "2^-20} x if_tsoffset {absent, 0, 3600} x {no extra blocks, NRB / ISB / custom at start / middle / end / spread, NRB before the IDB} x "
                "SHB options (quick: 126 sampled of ~1000), each applied to every base capture; distinct = distinct variants")


def replay(chk, path):
    return 0
