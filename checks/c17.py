"""C17 -- QUIC frames are parsed exactly; arbitrary bytes cannot hang the parser.
Spec: spec/Frames.tla -- generator automaton over the frame grammar of RFC 9000 / 9221 (24 kinds x varint widths
1/2/4/8 incl. non-minimal x STREAM OFF/LEN/FIN flags, open-ended frames only last) and the parser loop as a variant
(EveryFrameConsumes, RestStrictlyDecreases, EveryByteOnce).  TLC enumerates all symbol sequences of <= 2 (quick) / 3
(thorough, sampled) frames and prints them.  Conformance: each sequence is encoded by the reference encoders
(wire/quicref.py) with seeded field values and parsed by the real parse_frames; frames are compared field by field and
the lengths must add up to the payload length.  Termination: all byte strings of length <= 2 exhaustively, seeded
random strings <= 64 bytes and mutated valid payloads, each batch under a watchdog; a returned frame list is itself
the trace of the loop (one frame per iteration) and is checked against the variant (every length >= 1, no data
beyond the packet)."""
import json
import random
import signal

from harness import tlc
from harness.core import pool_map
from wire import quicref as Q

KINDS = ["padding", "ping", "ack", "ack_ecn", "reset", "stop", "crypto", "token", "stream", "maxdata", "maxsdata", "maxstreams", "blocked",
         "sblocked", "streamsblocked", "ncid", "retire", "pchal", "presp", "close_t", "close_a", "done", "dgram", "dgram_len"]
KSET = "{" + ",".join('"%s"' % k for k in KINDS) + "}"


def encode(sym, rng, last):
    """-> (bytes, expected attribute dict)"""
    k, w, fl = sym["k"], sym["w"], sym["fl"]
    if sym.get("mix"):              # the fields of ONE frame need not share a width: each gets its own
        Q.MIXRNG = rng
        w = "mix"
        v = lambda: rng.choice([rng.randrange(64), rng.randrange(64, 16384), rng.randrange(16384, 1 << 30), rng.randrange(300)])
    else:
        v = lambda: rng.randrange(1 << min(8 * w - 2, 30)) if rng.random() < 0.8 else rng.randrange(64)
    data = bytes(rng.getrandbits(8) for _ in range(rng.choice([0, 1, 5, 40]))) if k != "padding" else b""
    if k == "padding":
        n = rng.randint(1, 9)
        return Q.f_padding(n), dict(cls="PaddingFrame", length=n)
    if k == "ping":
        return Q.f_ping(), dict(cls="PingFrame", length=1)
    if k in ("ack", "ack_ecn"):
        rc = rng.randint(0, 3)
        la, de, fr = v(), v(), v()
        ranges = [(v(), v()) for _ in range(rc)]
        ecn = (v(), v(), v()) if k == "ack_ecn" else None
        b = Q.f_ack(la, de, fr, ranges, ecn, w)
        exp = dict(cls="AckFrame", largest_acknowledged=la, ack_delay=de, range_count=rc, first_ack_range=fr, ack_ranges=ranges)
        if ecn:
            exp.update(ect_0_count=ecn[0], ect_1_count=ecn[1], ect_ce_count=ecn[2])
        return b, exp
    if k == "reset":
        a, b_, c = v(), v(), v()
        return Q.f_reset_stream(a, b_, c, w), dict(cls="ResetStreamFrame", stream_id=a, application_protocol_error_code=b_, final_size=c)
    if k == "stop":
        a, b_ = v(), v()
        return Q.f_stop_sending(a, b_, w), dict(cls="StopSendingFrame", stream_id=a, application_protocol_error_code=b_)
    if k == "crypto":
        o = v()
        return Q.f_crypto(o, data, w), dict(cls="CryptoFrame", offset=o, crypto_length=len(data), crypto=data)
    if k == "token":
        return Q.f_new_token(data, w), dict(cls="NewTokenFrame", token_length=len(data), token=data)
    if k == "stream":
        fin, ln, off = bool(fl & 1), bool(fl & 2), bool(fl & 4)
        sid, o = v(), v()
        b = Q.f_stream(sid, data, off=o if off else None, fin=fin, with_len=ln, w=w)
        return b, dict(cls="StreamFrame", stream_id=sid, offset=o if off else 0, fin=fin, stream_data=data, data_length=len(data), frame_type=8 | fl)
    if k == "maxdata":
        a = v()
        return Q.f_max_data(a, w), dict(cls="MaxDataFrame", maximum_data=a)
    if k == "maxsdata":
        a, b_ = v(), v()
        return Q.f_max_stream_data(a, b_, w), dict(cls="MaxStreamDataFrame", stream_id=a, maximum_stream_data=b_)
    if k == "maxstreams":
        a, uni = v(), rng.random() < 0.5
        return Q.f_max_streams(a, uni, w), dict(cls="MaxStreamsFrame", maximum_streams=a, frame_type=0x13 if uni else 0x12)
    if k == "blocked":
        a = v()
        return Q.f_data_blocked(a, w), dict(cls="DataBlockedFrame", maximum_data=a)
    if k == "sblocked":
        a, b_ = v(), v()
        return Q.f_stream_data_blocked(a, b_, w), dict(cls="StreamDataBlockedFrame", stream_id=a, maximum_stream_data=b_)
    if k == "streamsblocked":
        a, uni = v(), rng.random() < 0.5
        return Q.f_streams_blocked(a, uni, w), dict(cls="StreamsBlockedFrame", maximum_streams=a, frame_type=0x17 if uni else 0x16)
    if k == "ncid":
        a, b_ = v(), v()
        cid = bytes(rng.getrandbits(8) for _ in range(rng.choice([1, 4, 8, 20])))
        tok = bytes(rng.getrandbits(8) for _ in range(16))
        return Q.f_new_connection_id(a, b_, cid, tok, w), dict(cls="NewConnectionIdFrame", sequence_number=a, retire_prior_to=b_, connection_id=cid,
                                                               connection_id_length=len(cid), stateless_reset_token=tok)
    if k == "retire":
        a = v()
        return Q.f_retire_connection_id(a, w), dict(cls="RetireConnectionIdFrame", sequence_number=a)
    if k in ("pchal", "presp"):
        d8 = bytes(rng.getrandbits(8) for _ in range(8))
        return (Q.f_path_challenge(d8) if k == "pchal" else Q.f_path_response(d8)), dict(cls="PathChallengeFrame" if k == "pchal" else "PathResponseFrame", data=d8)
    if k == "close_t":
        a, t = v(), v()
        return Q.f_connection_close(a, t, data, w), dict(cls="ConnectionCloseFrame", error_code=a, close_frame_type=t, reason_phrase=data, frame_type=0x1c)
    if k == "close_a":
        a = v()
        return Q.f_connection_close(a, None, data, w), dict(cls="ConnectionCloseFrame", error_code=a, reason_phrase=data, frame_type=0x1d)
    if k == "done":
        return Q.f_handshake_done(), dict(cls="HandshakeDoneFrame", length=1)
    if k == "dgram":
        return Q.f_datagram(data, False), dict(cls="DatagramFrame", payload=data)
    if k == "dgram_len":
        return Q.f_datagram(data, True, w), dict(cls="DatagramFrame", payload=data)
    raise ValueError(k)


def norm(x):
    if isinstance(x, (bytes, bytearray)):
        return bytes(x)
    if isinstance(x, list):
        return [tuple(e) for e in x]
    return x


def _seqs(job):
    from tlexport.quic.quic_frame import parse_frames
    seqs, seed = job
    rng = random.Random(seed)
    bad, n = [], 0
    for seq in seqs:
        enc = [encode(s, rng, i == len(seq) - 1) for i, s in enumerate(seq)]
        # adjacent PADDING frames merge into one run of zero bytes: the parser reports one frame for them
        payload = b"".join(b for b, _ in enc)
        n += 1
        signal.signal(signal.SIGALRM, _alarm)
        signal.setitimer(signal.ITIMER_REAL, 5.0)
        try:
            frames = parse_frames(payload, None)
            signal.setitimer(signal.ITIMER_REAL, 0)
        except Hang:
            bad.append((seq[:8], payload.hex()[:400], "parser did not terminate within 5 s on a well-formed frame sequence"))
            if sum(1 for x in bad if "terminate" in x[2]) > 20:
                break                   # (a looping parser would otherwise cost 5 s per sequence)
            continue
        except Exception as e:
            signal.setitimer(signal.ITIMER_REAL, 0)
            bad.append((seq[:8], payload.hex()[:400], f"parser raised {type(e).__name__}: {e}"))
            continue
        exp = []
        for (b, e) in enc:
            if e["cls"] == "PaddingFrame" and exp and exp[-1][1]["cls"] == "PaddingFrame":
                exp[-1] = (exp[-1][0] + b, dict(cls="PaddingFrame", length=exp[-1][1]["length"] + e["length"]))
            else:
                exp.append((b, e))
        why = None
        if len(frames) != len(exp):
            why = f"{len(frames)} frames parsed, {len(exp)} encoded"
        else:
            for f, (b, e) in zip(frames, exp):
                if type(f).__name__ != e["cls"]:
                    why = f"frame class {type(f).__name__}, expected {e['cls']}"
                    break
                if f.length != len(b):
                    why = f"{e['cls']}: length {f.length}, its encoding has {len(b)} bytes"
                    break
                for k, v in e.items():
                    if k in ("cls",):
                        continue
                    if norm(getattr(f, k, "<missing>")) != norm(v):
                        why = f"{e['cls']}.{k} = {norm(getattr(f, k, '<missing>'))!r}, encoded {norm(v)!r}"
                        break
                if why:
                    break
            if not why and sum(f.length for f in frames) != len(payload):
                why = "frame lengths do not add up to the payload length"
        if why:
            bad.append((seq, payload.hex(), why))
    return bad, n


class Hang(Exception):
    pass


def _alarm(*_a):
    raise Hang()


def _fuzz(job):
    from tlexport.quic.quic_frame import parse_frames
    payloads = job
    bad, n = [], 0
    signal.signal(signal.SIGALRM, _alarm)
    for p in payloads:
        n += 1
        signal.setitimer(signal.ITIMER_REAL, 2.0)
        try:
            frames = parse_frames(p, None)
            signal.setitimer(signal.ITIMER_REAL, 0)
        except Hang:
            bad.append((p.hex(), "parser did not terminate within 2 s"))
            if sum(1 for x in bad if "terminate" in x[1]) > 30:
                break                   # (enough witnesses; every further one costs 2 s)
            continue
        except Exception:
            signal.setitimer(signal.ITIMER_REAL, 0)
            continue                    # signalling an error is fine
        # the returned list is the trace of the loop: validate the variant
        if any((f.length is None) or f.length < 1 for f in frames):
            bad.append((p.hex(), "a frame with length < 1 was returned (the loop cannot make progress on it)"))
        elif sum(f.length for f in frames) < len(p):
            bad.append((p.hex(), "returned although payload bytes remain unparsed"))
        else:
            for f in frames:
                for k, v in vars(f).items():
                    if isinstance(v, (bytes, bytearray)) and len(v) > len(p):
                        bad.append((p.hex(), f"{type(f).__name__}.{k} holds {len(v)} bytes, the packet has {len(p)}"))
    return bad, n


def run(chk):
    quick = chk.tier == "quick"
    rng = random.Random(chk.seed)
    r = tlc.run("Frames", dict(MaxFrames="2" if quick else "3", Widths="{1,2,4,8}" if quick else "{1,8}", Kinds=KSET, EmitOn="FALSE"),
                invariants=["EveryFrameConsumes", "EveryByteOnce", "OnlyLastOpenEnded"], properties=["RestStrictlyDecreases"], view="View",
                timeout=1500)
    chk.tlc("Frames grammar + parser variant", r)
    g = tlc.run("Frames", dict(MaxFrames="2", Widths="{1,2,4,8}", Kinds=KSET, EmitOn="TRUE"), invariants=["Emit"], workers=1, timeout=900,
                view="View")
    chk.tlc("Frames enumerate sequences of <= 2", g)
    seqs = list({json.dumps(s): s for s in g.printed}.values())
    chk.exhaustive = True
    if not quick:
        g3 = tlc.run("Frames", dict(MaxFrames="3", Widths="{1,2,4,8}", Kinds=KSET, EmitOn="TRUE"), invariants=["Emit"], simulate=(3000, 8),
                     workers=1, seed=chk.seed, timeout=900)
        chk.tlc("Frames sample sequences of 3", g3)
        seqs += list({json.dumps(s): s for s in g3.printed}.values())
    # "any sequence": long sequences over the same symbols (open-ended frames only last), up to 400 frames per packet -- the grammar automaton
    # of Frames.tla has no length bound, its exhaustive enumeration stops at MaxFrames
    syms = list({json.dumps(x, sort_keys=True): x for sq in seqs for x in sq}.values())
    closed = [x for x in syms if not ((x["k"] == "stream" and not x["fl"] & 2) or x["k"] == "dgram")]
    nlong = 0
    for _ in range(150 if quick else 3000):
        n = rng.choice([3, 5, 17, 63, 64, 65, 66, 100, 257, 400])
        seqs.append([rng.choice(closed) for _ in range(n - 1)] + [rng.choice(syms)])
        nlong += 1
    # frames whose fields have DIFFERENT varint widths (e.g. sequence number 64 with retire-prior-to 3; an ACK gap of 5 with a range of 700)
    nmix = 0
    for _ in range(400 if quick else 8000):
        n = rng.choice([1, 2, 3, 5])
        seqs.append([dict(rng.choice(closed), mix=True) for _ in range(n - 1)] + [dict(rng.choice(syms), mix=True)])
        nmix += 1
    chk.extra["long_sequences"] = nlong
    chk.extra["mixed_width_sequences"] = nmix
    rng.shuffle(seqs)
    reps = 1 if quick else 3
    chunks = [(seqs[i::32], rng.randrange(1 << 30)) for i in range(32)] * reps
    for bad, n in pool_map(_seqs, chunks, chunksize=1):
        chk.evaluations += n
        for seq, hexp, why in bad:
            chk.violation(f"frames {[(s['k'], s['w'], s['fl']) for s in seq]}: {why}", dict(seq=seq, payload=hexp, why=why))
    chk.distinct |= {json.dumps(s)[:2000] for s in seqs}
    chk.traces_validated += len(seqs) * reps
    chk.sample(dict(sequence=seqs[0]))
    chk.sample(dict(sequence=seqs[1]))
    # termination / no invented data on arbitrary bytes
    payloads = [bytes([a]) for a in range(256)] + [bytes([a, b]) for a in range(256) for b in range(256)]
    for _ in range(60_000 if quick else 1_000_000):
        n = rng.randint(3, 64)
        first = rng.choice([rng.getrandbits(8), rng.choice([0, 2, 3, 6, 8, 0xa, 0xe, 0xf, 0x18, 0x1c, 0x30, 0x31, 0x40, 0xff])])
        payloads.append(bytes([first]) + bytes(rng.getrandbits(8) if rng.random() < 0.7 else rng.choice([0, 0xff, 0xc0, 0x3f, 0x7f, 0x80]) for _ in range(n - 1)))
    r2 = random.Random(chk.seed + 1)
    for s in seqs[: 3000 if quick else 30000]:      # mutated valid payloads
        b = bytearray(b"".join(encode(x, r2, False)[0] for x in s))
        for _ in range(r2.randint(1, 3)):
            op = r2.random()
            if op < 0.5 and b:
                b[r2.randrange(len(b))] = r2.getrandbits(8)
            elif op < 0.8 and len(b) > 1:
                del b[r2.randrange(len(b)):]
            else:
                b += bytes(r2.getrandbits(8) for _ in range(r2.randint(1, 4)))
        if b:
            payloads.append(bytes(b))
    chunks = [payloads[i::32] for i in range(32)]
    for bad, n in pool_map(_fuzz, chunks, chunksize=1):
        chk.evaluations += n
        chk.traces_validated += n
        for hexp, why in bad:
            chk.violation(f"arbitrary bytes {hexp[:60]}: {why}", dict(payload=hexp, why=why))
    chk.rule = ("(a) all sequences of <= 2 symbols of the grammar automaton (24 kinds x 4 varint widths x 8 STREAM flag sets; thorough: + sampled "
                "triples), encoded with seeded field values; (b) all byte strings of length <= 2, seeded random strings of 3..64 bytes biased to "
                "frame-type and varint-prefix bytes, mutated valid payloads; distinct = distinct symbol sequences")
    chk.assumptions += ["decode fidelity is decided by comparison with the independent encoders in /verif/wire/quicref.py; the specification contributes "
                        "the grammar enumeration and the loop variant"]


def replay(chk, path):
    o = json.load(open(path))
    if "payload" in o and "seq" not in o:
        bad, _ = _fuzz([bytes.fromhex(o["payload"])])
        print(bad)
        return 1 if bad else 0
    return 0
