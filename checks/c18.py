"""C18 -- the export is a deterministic function of capture, secrets and options.
Spec: spec/Main.tla -- consecutive runs sharing the module-level variables, each under its own hash seed (set
iteration order); OutputIsFunctionOfInputs holds with run() starting from fresh state (Repaired) and is violated
by the original code (kept as Repaired = FALSE).  Demux.tla (C04) establishes that the session chosen for a QUIC
datagram does not depend on the order in which the CID sets are iterated.
Conformance: sha256 of the output for the same input under PYTHONHASHSEED in {0, 1, 2, random...}, different working
directories, scrubbed vs noisy environment (real subprocesses), and two / three consecutive in-process run() calls
WITHOUT any reset by the harness; inputs: TLS captures of several cipher kinds, multi-connection QUIC captures with
zero-length and prefix-related connection IDs, the mixed connection sets of C04."""
import hashlib
import json
import os
import random
import tempfile

from checks import c04
from harness import runner, tlc
from harness.core import pool_map
from harness.tlsrun import build_tls_capture
from wire import tlsref as R
from wire.container import pcapng_bytes
from wire.l2l4 import mk_flow


def inputs(seed, quick):
    rng = random.Random(seed)
    out = []
    for name in (list(c04.CONCRETE) if not quick else ["two quic, empty cids, same client host", "quic whose new cid extends its old cid (prefix within one side)", "three quic: empty, one-byte and two-byte cids",
                                                        "mixed: 2 tls (v4/v6 same host numbers) + 2 quic", "two quic, prefix-related client cids"]):
        conns = [c04.build_one(cd, i, seed + i) for i, cd in enumerate(c04.CONCRETE[name])]
        order = [i + 1 for i, c in enumerate(conns) for _ in c["frames"]]
        rng.shuffle(order)
        mf = c04.merged_frames(conns, order, [len(c["frames"]) for c in conns])
        keylog = [l for c in conns for l in c["keylog"]]
        out.append((name, pcapng_bytes([(1_700_000_000_000_000 + 1013 * i, fr) for i, (_ci, fr) in enumerate(mf)]), "\n".join(keylog) + "\n"))
    for ver, suite in [(R.TLS13, 0x1301), (R.TLS12, 0x003C), (R.TLS10, 0x0005)]:
        cap, keylog, conns, flows = build_tls_capture(dict(conns=[dict(ver=ver, suite=suite, seed=seed, shape={}, app=[["c", 40], ["s", 900], ["c", 3]])]))
        out.append((f"tls {R.VNAME[ver]} {suite:04x}", pcapng_bytes(cap.pkts), "\n".join(keylog) + "\n"))
    # inputs that END WITH UNFINISHED STATE (Main.tla capture 2): a run on one of them must leave nothing behind for the next run
    for ver, suite, how in [(R.TLS12, 0xC02F, "cut"), (R.TLS13, 0x1301, "lost"), (R.TLS12, 0x002F, "nokeys"), (R.TLS10, 0x000A, "cut")]:
        cap, keylog, conns, flows = build_tls_capture(dict(conns=[dict(ver=ver, suite=suite, seed=seed + 3, shape={}, mss=90,
                                                                         app=[["c", 40], ["s", 900], ["c", 300], ["s", 20]])]))
        pk = list(cap.pkts)
        if how == "cut":
            pk = pk[:len(pk) - 3]
        elif how == "lost":
            del pk[len(pk) // 2]
        out.append((f"dirty tls {R.VNAME[ver]} {suite:04x} {how}", pcapng_bytes(pk), "" if how == "nokeys" else "\n".join(keylog) + "\n"))
    # packets stored as Simple Packet Blocks carry no timestamp: whatever a reader does with them (TLExport skips them), it must do the same every time
    cap, keylog, conns, flows = build_tls_capture(dict(conns=[dict(ver=R.TLS13, suite=0x1301, seed=seed + 9, shape={}, app=[["c", 40], ["s", 900], ["c", 3], ["s", 50]])]))
    n = len(cap.pkts)
    for name, idx in (("spb tail", {n - 1, n - 2}), ("spb mid", {n // 2}), ("spb all data", set(range(4, n)))):
        out.append((f"tls13 with Simple Packet Blocks: {name}", pcapng_bytes(cap.pkts, spb=idx), "\n".join(keylog) + "\n"))
    # records damaged in transit (one bit flipped inside the ciphertext of an application record; checksums recomputed): what is exported
    # for them must not depend on the interpreter's optimisation level or anything else in the environment
    for ver, suite in [(R.TLS12, 0x003C), (R.TLS11, 0x002F), (R.TLS12, 0xC02F), (R.TLS10, 0x0005)]:
        from wire.tlsconn import TlsConn
        from wire.capture import tcp_capture
        from harness.tlsrun import suites as _suites
        cdam = TlsConn(ver, _suites()[suite], seed=seed + 41)
        cdam.app("c", 600)
        cdam.app("s", 900)
        cdam.app("c", 40)
        for r_ in cdam.records:
            if r_.kind == "APP" and r_.d == "c" and len(r_.raw) > 100:
                raw = bytearray(r_.raw)
                raw[len(raw) - 20] ^= 0x10
                r_.raw = bytes(raw)
                break
        capd = tcp_capture([cdam], [mk_flow(30)])
        out.append((f"damaged record {R.VNAME[ver]} {suite:04x}", pcapng_bytes(capd.pkts), "\n".join(cdam.keylog) + "\n"))
    # key logs with CONFLICTING lines for one client random (a stale / merged log): which line wins is the tool's business, but it must be
    # the same line in every run (hash seed, environment); and secrets that travel only inside the capture (no -s at all)
    for ver, suite in [(R.TLS12, 0xC02F), (R.TLS13, 0x1302), (R.TLS10, 0x002F)]:
        cap, keylog, conns, flows = build_tls_capture(dict(conns=[dict(ver=ver, suite=suite, seed=seed + 21, shape={}, app=[["c", 40], ["s", 300]])]))
        wrong = [" ".join(l.split()[:2] + [l.split()[2][::-1]]) for l in keylog]
        for nm, lines in (("wrong first", wrong + keylog), ("wrong last", keylog + wrong), ("wrong interleaved", [x for pr in zip(keylog, wrong) for x in pr] + ["# end"] * 3)):
            out.append((f"conflicting key log lines {R.VNAME[ver]} {nm}", pcapng_bytes(cap.pkts), "\n".join(lines) + "\n"))
        out.append((f"secrets only in the capture {R.VNAME[ver]}", pcapng_bytes(cap.pkts, dsbs=[(0, ("\n".join(keylog) + "\n").encode())]), None))
        out.append((f"same capture, no key source at all {R.VNAME[ver]}", pcapng_bytes(cap.pkts), None))      # (in-process it FOLLOWS runs that had the secrets)
        out.append((f"same capture, secrets block of another connection only {R.VNAME[ver]}",
                    pcapng_bytes(cap.pkts, dsbs=[(0, ("CLIENT_RANDOM " + "12" * 32 + " " + "34" * 48 + "\n").encode())]), None))
    from harness.quicrun import build_conn as qbuild
    from wire.capture import Capture, udp_capture
    for k, (first, dup, cutn) in enumerate([("same", True, 0), ("other", False, 0), ("other", True, 0), ("same", False, 2)]):
        b = c04.std_quic_beh(["1302", "1303", "1301", "1304"][k])
        b["first"] = first
        c, payload = qbuild(b, seed + 11 + k, dict(c_cid_len=8, s_cid_len=8, pnlen={"c": 2, "s": 2}))
        dg = []
        for g in c.dgrams:
            dg.append(g)
            if dup and len(dg) < 8:
                dg.append(g)                                  # duplicated datagrams: retransmitted CRYPTO frames stay buffered
        if cutn:
            dg = dg[:len(dg) - cutn]
        fl = mk_flow(20 + k)
        items = [(fl, g.d, g.payload, g) for g in dg]
        if k % 2 == 0:          # runts with a short header on the connection's own 4-tuple (too short / just long enough for a header-protection sample)
            rr = random.Random(seed + 31 + k)
            for n_ in (3, 12, 19, 21, 27):
                items.insert(rr.randrange(3, len(items) + 1), (fl, rr.choice("cs"), bytes([0x40 | rr.getrandbits(6)]) + bytes(rr.getrandbits(8) for _ in range(8 + n_)), None))
        cp = udp_capture(items, cap=Capture(ts0=1_700_000_000_000_000, step=1009))
        out.append((f"{'dirty ' if dup or cutn else ''}quic first={first} dup={dup} cut={cutn}", pcapng_bytes(cp.pkts), "\n".join(c.keylog) + "\n"))
    return out


def _sub(job):
    name, data, kl, hashseed, noisy, opts = job
    d = tempfile.mkdtemp(prefix="cwd_", dir=runner.scratch())
    env = {"LANG": "de_DE.UTF-8", "TZ": "Pacific/Kiritimati", "COLUMNS": "17", "HOME": d, "FOO": "bar" * 50,
           "SSLKEYLOGFILE": os.path.join(d, "no_such_keylog.log") if hashseed % 4 == 1 else os.path.join(d, "other.log"), "TLEXPORT_KEYLOG": "x",
           "PYTHONOPTIMIZE": ("1" if hashseed % 3 == 0 else "2" if hashseed % 3 == 1 else ""), "PYTHONDEVMODE": "", "PYTHONWARNINGS": "ignore",
           "PYTHONIOENCODING": "latin-1", "LC_ALL": "C"} if noisy else {}
    if noisy:
        with open(os.path.join(d, "other.log"), "w") as f:       # a key log lying around in the working directory / named by the environment
            f.write("CLIENT_RANDOM " + "ab" * 32 + " " + "cd" * 48 + "\n")
    res = runner.run_subprocess(data, kl, opts=opts, cwd=d, env_extra=env, hashseed=hashseed)
    if res.out is None:
        return dict(name=name, hashseed=hashseed, noisy=noisy, sha=None, err=(res.exc or res.stdout or "no output")[-300:])
    return dict(name=name, hashseed=hashseed, noisy=noisy, sha=hashlib.sha256(res.out).hexdigest())


def _inproc(job):
    name, data, kl, n, opts = job
    shas = []
    for i in range(n):
        res = runner.run_inproc(data, kl, opts=opts, reset=(i == 0))       # only the first run starts from a fresh process state
        shas.append(hashlib.sha256(res.out).hexdigest() if res.out is not None else "crash:" + (res.exc or "")[-120:])
    return dict(name=name, shas=shas)


def _mixed(job):
    """different inputs one after the other in ONE process, none of them reset by the harness: each output must equal the output the
    same input gives in a fresh process (nothing processed by an earlier run may leak into a later one)"""
    seq = job
    shas = []
    for i, (name, data, kl) in enumerate(seq):
        if i % 3 == 2:          # a run that ABORTS (capture truncated in the middle of a block) sits between the others: whatever it read
            runner.run_inproc(seq[i - 1][1][: len(seq[i - 1][1]) * 2 // 3 + 1], seq[i - 1][2], reset=False)     # must not reach the next run
        res = runner.run_inproc(data, kl, reset=(i == 0))
        shas.append((name, hashlib.sha256(res.out).hexdigest() if res.out is not None else "crash:" + (res.exc or "")[-120:]))
    return shas


def run(chk):
    quick = chk.tier == "quick"
    rng = random.Random(chk.seed)
    r = tlc.run("Main", dict(NConn="2", PktsPerConn="2", Runs="3", Repaired="TRUE", Seeds="{0,1,2}", Caps="{1,2}"), invariants=["OutputIsFunctionOfInputs"], timeout=300)
    chk.tlc("Main: repeated runs, fresh state", r)
    r0 = tlc.run("Main", dict(NConn="2", PktsPerConn="2", Runs="3", Repaired="FALSE", Seeds="{0,1}", Caps="{1,2}"), invariants=["OutputIsFunctionOfInputs"], timeout=300)
    chk.tlc("Main: original code keeps module state (documents the repaired defect)", r0, expect_ok=False)
    from checks import demux_cfg
    for name in ("two quic, empty cids, same client host", "three quic: empty, one-byte and two-byte cids"):
        r = tlc.run("Demux", demux_cfg.consts(name, True), invariants=c04.INV, view="View", timeout=300)
        chk.tlc(f"Demux set-iteration independence: {name}", r)
    ins = inputs(chk.seed, quick)
    seeds = [0, 1, 2] + [rng.randrange(1, 1 << 31) for _ in range(2 if quick else 8)]
    jobs = []
    for name, data, kl in ins:
        for hs in seeds:
            jobs.append((name, data, kl, hs, hs % 2 == 1, []))
    ref = {}
    for res in pool_map(_sub, jobs, chunksize=1):
        chk.evaluations += 1
        chk.traces_validated += 1
        chk.distinct.add((res["name"], res["hashseed"], res["noisy"]))
        if res["sha"] is None:
            chk.violation(f"[{res['name']}] PYTHONHASHSEED={res['hashseed']}: no output ({res['err']})", dict(input=res["name"], hashseed=res["hashseed"]))
            continue
        ref.setdefault(res["name"], {}).setdefault(res["sha"], []).append((res["hashseed"], res["noisy"]))
    for name, m in ref.items():
        if len(m) > 1:
            chk.violation(f"[{name}] output differs between runs on the same input: " + "; ".join(f"sha {k[:12]} for (hash seed, noisy env) {v[:4]}" for k, v in m.items()),
                          dict(input=name, outputs={k: v for k, v in m.items()}))
    ij = [(name, data, kl, 3, []) for name, data, kl in ins]
    for res in pool_map(_inproc, ij, chunksize=1):
        chk.evaluations += len(res["shas"])
        if len(set(res["shas"])) > 1:
            chk.violation(f"[{res['name']}] consecutive in-process runs on the same input give different outputs: {[s[:12] for s in res['shas']]}",
                          dict(input=res["name"], shas=res["shas"]))
        sub = ref.get(res["name"], {})
        if sub and res["shas"][0] not in sub:
            chk.violation(f"[{res['name']}] in-process output differs from the subprocess output", dict(input=res["name"]))
    # different inputs interleaved in one process (A, B, C, ..., A again)
    orders = [ins + ins[:2], list(reversed(ins)) + [ins[-1]]] + ([] if quick else [rng.sample(ins, len(ins)) + rng.sample(ins, 2) for _ in range(6)])
    for shas in pool_map(_mixed, orders, chunksize=1):
        for name, sha in shas:
            chk.evaluations += 1
            sub = ref.get(name, {})
            if sub and sha not in sub:
                chk.violation(f"[{name}] output of an in-process run that follows runs on OTHER inputs differs from the output of a fresh process "
                              f"({sha[:12]} vs {list(sub)[0][:12]}): something processed by an earlier run leaked into it", dict(input=name, sha=sha))
    chk.sample(dict(inputs=[n for n, _d, _k in ins], hash_seeds=seeds))
    chk.rule = ("inputs (multi-connection QUIC captures with zero-length / prefix-related CIDs, mixed TLS+QUIC sets, TLS captures of 3 cipher-state "
                "kinds) x PYTHONHASHSEED values x fresh working directory x scrubbed / noisy environment as real subprocesses, plus 3 consecutive "
                "in-process run() calls without reset; distinct = distinct (input, hash seed, environment)")


def replay(chk, path):
    return 0
