"""C03 -- an undecryptable or damaged flow never aborts the run or disturbs other flows.
Spec: TlsSession.tla with the information-removing faults as environment actions (keys missing, unknown suite,
capture starting after the hellos; KF_LossResync = loss of a whole record) -- TLC checks ExportedIsPrefix,
NeverGarbage, ClosedGate, NeverCrashes for every world and history, and documents which families break the prefix
clause under loss.  Demux.tla (C04) gives the structural half: a fault confined to the victim's packets leaves the
packet sequence delivered to every other session unchanged.
Conformance = fault enumeration on concrete captures: one victim (TLS of every cipher kind, or QUIC) next to healthy
TLS and QUIC bystanders; every single fault of the property's list at every position; oracle: run terminates and
writes a well-formed file, bystanders' exports byte-identical to the fault-free run, victim's export a prefix of its
plaintext for information-removing faults."""
import json
import random

from checks import c01
from harness import runner, tlc
from harness.core import pool_map
from harness.tlsrun import build_tls_capture, observe_tls, suites
from observe.pcapng import Observation
from wire import quicref as Q
from wire import tlsref as R
from wire.container import pcapng_bytes
from wire.l2l4 import mk_flow, tcp_frame, udp_frame, PSH, ACK
from harness.tlsrun import suites

VICTIMS = [(R.TLS13, 0x1301), (R.TLS13, 0x1303), (R.TLS12, 0xC02F), (R.TLS12, 0xCCA8), (R.TLS12, 0x003C), (R.TLS11, 0x002F),
           (R.TLS10, 0x0035), (R.SSL30, 0x000A), (R.TLS10, 0x0005), (R.TLS12, 0xC0AC)]
INFO_REMOVING = {"drop", "cut_before", "cut_after", "rmkeys", "nosuite", "foreign_tcp", "foreign_udp"}


def base_scenario(kind, seed, rng, shape=None):
    ver, suite = kind
    app = [["c", 120], ["s", 700], ["s", 90], ["c", 30], ["s", 1500], ["c", 5]]
    victim = dict(ver=ver, suite=suite, seed=seed, shape=dict(shape or {}), app=app, flow=dict(idx=0, ipv=4), mss=700)
    by1 = dict(ver=R.TLS12, suite=0xC030, seed=seed + 1, shape={}, app=[["c", 50], ["s", 400], ["c", 7], ["s", 60]], flow=dict(idx=1, ipv=6))
    by2 = dict(ver=R.TLS10, suite=0x002F, seed=seed + 2, shape={}, app=[["c", 33], ["s", 200], ["s", 201]], flow=dict(idx=2, ipv=4, sport=44330))
    return dict(conns=[victim, by1, by2])


def faults_for(cap, keylog, conns, rng, quick):
    """list of fault dicts for victim = connection 0"""
    vix = [i for i, m in enumerate(cap.meta) if m is not None and m.conn == 0]
    out = []
    for i in vix:
        out.append(dict(kind="drop", pkt=i))
    for i in vix[1:]:
        out.append(dict(kind="cut_before", pkt=i))
    for i in vix[:-1]:
        out.append(dict(kind="cut_after", pkt=i))
    vlines = [j for j, l in enumerate(keylog) if l.split()[1] == conns[0].cr.hex()]
    n = len(vlines)
    subsets = range(1, 2 ** n) if n <= 5 else [2 ** n - 1]
    for s in subsets:
        out.append(dict(kind="rmkeys", lines=[vlines[j] for j in range(n) if s >> j & 1]))
    out.append(dict(kind="randsecrets"))
    out.append(dict(kind="nosuite"))
    out.append(dict(kind="foreign_tcp"))
    out.append(dict(kind="foreign_tcp", mirror=1))
    out.append(dict(kind="foreign_tcp", mirror=2))
    for ln in (1, 20, 23, 1200, 1472):
        for fill in ("zero", "rand", "long", "short", "vn"):
            out.append(dict(kind="foreign_udp", len=ln, fill=fill, port=rng.choice([443, 53, 4433, 50000])))
    # corruption classes
    for i in vix:
        plen = len(cap.meta[i].data)
        poss = sorted(set(list(range(min(12, plen))) + [43, 44, 76, 77, 78, 79, 80, plen // 2, plen - 1]) & set(range(plen)))
        if quick:
            poss = rng.sample(poss, min(4, len(poss)))
        for p in poss:
            for op in (("xor", 0x01), ("xor", 0x80), ("set", 0x00), ("set", 0xFF)) if not quick else (rng.choice([("xor", 0x01), ("xor", 0x80), ("set", 0x00), ("set", 0xFF), ("set", 0x02), ("set", 0x01)]),):
                out.append(dict(kind="corrupt", pkt=i, pos=p, op=op[0], val=op[1]))
        for t in ({1, 3, 5, 6, plen - 1} if not quick else {rng.choice([1, 3, 5, 6, max(1, plen - 1)])}):
            if 0 < t < plen:
                out.append(dict(kind="truncate", pkt=i, to=t))
    return out


def apply_fault(cap, keylog, conns, flows, f, rng):
    """-> (pkts, keylog lines)"""
    pkts, meta = list(cap.pkts), list(cap.meta)
    kl = list(keylog)
    k = f["kind"]
    vic = lambda i: meta[i] is not None and meta[i].conn == 0
    if k == "drop":
        pkts = [p for i, p in enumerate(pkts) if i != f["pkt"]]
    elif k == "cut_before":
        pkts = [p for i, p in enumerate(pkts) if not (vic(i) and i < f["pkt"])]
    elif k == "cut_after":
        pkts = [p for i, p in enumerate(pkts) if not (vic(i) and i > f["pkt"])]
    elif k == "rmkeys":
        kl = [l for j, l in enumerate(kl) if j not in f["lines"]]
    elif k == "randsecrets":
        cr = conns[0].cr.hex()
        kl = [(" ".join(l.split()[:2] + [bytes(rng.getrandbits(8) for _ in range(len(l.split()[2]) // 2)).hex()]) if l.split()[1] == cr else l)
              for l in kl]
    elif k in ("corrupt", "truncate"):
        i = f["pkt"]
        sg = meta[i]
        data = bytearray(sg.data)
        if k == "corrupt":
            data[f["pos"]] = (data[f["pos"]] ^ f["val"]) if f["op"] == "xor" else f["val"]
        else:
            data = data[:f["to"]]
        from wire.l2l4 import TcpStream
        # rebuild the frame with the damaged payload (checksums recomputed: the damage is in the payload, not a bad checksum)
        fl = flows[0]
        old = pkts[i][1]
        # reuse seq/ack from the original frame
        import struct
        ipoff = 14
        ihl = 20 if fl.ipv == 4 else 40
        seq, ack = struct.unpack("!II", old[ipoff + ihl + 4: ipoff + ihl + 12])
        pkts[i] = (pkts[i][0], tcp_frame(fl, sg.d, seq, ack, bytes(data)))
    elif k == "foreign_tcp":
        fl = mk_flow(9, ipv=4, sport=443)
        if f.get("mirror") is not None and f["mirror"] < len(flows):
            # the foreign flow runs between the SAME two hosts as a healthy bystander, in the opposite direction, with the same pair of port
            # numbers (host B:50000 -> host A:443 next to host A:50000 -> host B:443): a different 4-tuple that shares every number
            from wire.l2l4 import Endpoint, Flow
            b = flows[f["mirror"]]
            fl = Flow(Endpoint(b.server.mac, b.server.ip, b.client.port), Endpoint(b.client.mac, b.client.ip, b.server.port))
        t0 = pkts[3][0] + 1
        req = b"GET / HTTP/1.1\r\nHost: example\r\n\r\n"
        rsp = b"HTTP/1.1 200 OK\r\nContent-Length: 5\r\n\r\nhello"
        extra = [(t0, tcp_frame(fl, "c", 101, 501, req)), (t0 + 2, tcp_frame(fl, "s", 501, 101 + len(req), rsp)),
                 (t0 + 4, tcp_frame(fl, "c", 101 + len(req), 501 + len(rsp), b"\x16\x03\x01\x00\x02\x01\x00"))]
        pkts = sorted(pkts + extra, key=lambda p: p[0])
    elif k == "foreign_udp":
        fl = mk_flow(8, ipv=rng.choice([4, 6]), sport=f["port"])
        n = f["len"]
        if f["fill"] == "zero":
            pl = bytes(n)
        elif f["fill"] == "rand":
            pl = bytes(rng.getrandbits(8) for _ in range(n))
        elif f["fill"] == "long":
            pl = (b"\xc3\x00\x00\x00\x01\x08" + bytes(rng.getrandbits(8) for _ in range(n)))[:n]
        elif f["fill"] == "vn":
            pl = (b"\xc0\x00\x00\x00\x00\x00\x00" + bytes(n))[:n]
        else:
            pl = (b"\x43" + bytes(rng.getrandbits(8) for _ in range(n)))[:n]
        t0 = pkts[2][0] + 1
        pkts = sorted(pkts + [(t0, udp_frame(fl, "c", pl)), (t0 + 3, udp_frame(fl, "s", pl[::-1]))], key=lambda p: p[0])
    return pkts, kl


def _one(job):
    sc, nosuite, fseed, quick = job
    rng = random.Random(fseed)
    try:
        if nosuite is not None:
            pass
        cap, keylog, conns, flows = build_tls_capture(sc)
        sc2 = json.loads(json.dumps(sc))
        # a code point TLExport cannot implement: registered suites whose cipher it has no code for (ARIA, Camellia-GCM, SEED, GOST, NULL ...)
        # and unregistered / GREASE values, drawn anew for every victim
        reg = R.registry()
        cands = sorted(c_ for c_, n_ in reg.items() if R.denote(c_, n_) is None or not R.implementable(R.denote(c_, n_))) + [0x1A1A, 0xFFFE, 0x00FF, 0x5600]
        sc2["conns"][0]["shape"]["sh_suite_override"] = cands[fseed % len(cands)] if fseed % 4 else 0xC07A
        cap_ns, keylog_ns, conns_ns, _ = build_tls_capture(sc2)
    except Exception:
        import traceback
        return dict(machinery=traceback.format_exc()[-1500:])
    base = runner.run_inproc(pcapng_bytes(cap.pkts), "\n".join(keylog) + "\n")
    bobs, bo = observe_tls(base, conns, flows)
    if bobs["crashed"] or bobs["problems"] or any(bobs["conns"][i][d] != conns[i].truth(d) for i in range(len(conns)) for d in "cs"):
        return dict(sc=sc, results=[dict(fault=dict(kind="none"), bad=["fault-free run is not exact: " + (bobs["exc"] or str(bobs["problems"]))[-300:]])], n=1)
    faults = faults_for(cap, keylog, conns, rng, quick)
    results = []
    for f in faults:
        if f["kind"] == "nosuite":
            pkts, kl = cap_ns.pkts, keylog_ns
        else:
            pkts, kl = apply_fault(cap, keylog, conns, flows, f, rng)
        res = runner.run_inproc(pcapng_bytes(pkts), "\n".join(kl) + "\n")
        obs, o = observe_tls(res, conns, flows)
        bad = []
        if obs["crashed"]:
            bad.append("run aborted: " + obs["exc"].strip().splitlines()[-1])
        elif res.out is None:
            bad.append("no output file written")
        else:
            if obs["problems"]:
                bad.append("output malformed: " + obs["problems"][0])
            for i in range(1, len(conns)):
                b, g = bobs["conns"][i], obs["conns"][i]
                if (g["c"], g["s"]) != (b["c"], b["s"]) or [(d, p) for d, _t, p, _n in g.get("segs", [])] != [(d, p) for d, _t, p, _n in b.get("segs", [])] \
                        or [t for _d, t, _p, _n in g.get("segs", [])] != [t for _d, t, _p, _n in b.get("segs", [])]:
                    bad.append(f"bystander connection {i} is exported differently from the fault-free run")
            if f["kind"] in INFO_REMOVING:
                v = obs["conns"][0]
                for d in "cs":
                    if not conns[0].truth(d).startswith(v[d]):
                        bad.append(f"victim direction {d}: export is not a prefix of its plaintext (ciphertext, invented or out-of-order bytes)")
            if f["kind"] in ("foreign_tcp", "foreign_udp"):
                v = obs["conns"][0]
                if (v["c"], v["s"]) != (conns[0].truth("c"), conns[0].truth("s")):
                    bad.append("foreign traffic changed the export of a healthy connection")
        results.append(dict(fault=f, bad=bad))
    return dict(sc=sc, results=results, n=len(faults) + 1, fam=conns[0].suite.family, implicit=conns[0].ver in (R.SSL30, R.TLS10))


# ---------------------------------------------------------------------------------------------- QUIC victims
def quic_hist(gens=False):
    A = lambda d, g, fr: dict(d=d, pkts=[dict(t="A", d=d, gen=g, frames=fr)])
    S = lambda i: dict(ft="stream", a=i, b=0)
    O = lambda k: dict(ft="other", a=k, b=0)
    h = [dict(d="c", pkts=[dict(t="I", d="c", gen=0, frames=[dict(ft="crypto", a="CH", b=1)])]),
         dict(d="s", pkts=[dict(t="I", d="s", gen=0, frames=[O("ack"), dict(ft="crypto", a="SH", b=1)]), dict(t="H", d="s", gen=0, frames=[dict(ft="crypto", a="SF", b=1)])]),
         dict(d="c", pkts=[dict(t="I", d="c", gen=0, frames=[O("ack")]), dict(t="H", d="c", gen=0, frames=[dict(ft="crypto", a="CF", b=1)]), dict(t="A", d="c", gen=0, frames=[S(1)])]),
         A("s", 0, [O("done"), S(2)]), A("c", 0, [S(3), O("ack")]), A("s", 0, [O("ack"), S(4), S(5)])]
    if gens == "early":      # 0.5-RTT data: the server's first 1-RTT packet travels (coalesced) before the client's Finished
        h[1]["pkts"].append(dict(t="A", d="s", gen=0, frames=[S(9)]))
        h.insert(2, A("s", 0, [S(10)]))
        h += [A("c", 0, [S(6)]), A("s", 0, [S(7)])]
    elif gens:
        h += [A("c", 1, [S(6)]), A("s", 1, [S(7)]), A("s", 1, [O("ping"), S(8)])]
    else:
        h += [A("c", 0, [S(6)]), A("s", 0, [S(7)])]
    return h


def is_sublist(a, b):
    it = iter(b)
    return all(any(x == y for y in it) for x in a)


def _one_quic(job):
    suite, seed, quick, gens = job
    from harness.quicrun import build_conn as build_quic
    from wire.tlsconn import TlsConn
    from wire.capture import tcp_capture
    rng = random.Random(seed)
    mk = lambda st: dict(suite=st, first="same", split=[1], twoPkts=False, retry=False, zrtt=False, coalesce=True, cfApp=True, hist=quic_hist(gens), out=[], kf=False)
    try:
        vq, _ = build_quic(mk(suite), seed, dict(pnlen={"c": 2, "s": 2}, c_cid_len=rng.choice([0, 8]), s_cid_len=8))
        # the healthy QUIC bystander uses connection IDs of any legitimate length, zero included (RFC 9000 5.1)
        bq, _ = build_quic(mk("1301"), seed + 1, dict(pnlen={"c": 1, "s": 2}, c_cid_len=rng.choice([0, 0, 8, 20]), s_cid_len=rng.choice([0, 4, 8])))
        bt = TlsConn(R.TLS12, suites()[0xC02F], seed=seed + 2)
        bt.app("c", 30)
        bt.app("s", 500)
    except Exception:
        import traceback
        return dict(machinery=traceback.format_exc()[-1500:])
    if seed % 2:          # the victim's client retransmits its first flight (PTO): duplicate Initial datagrams; CRYPTO frames of a connection that
        vq.dgrams.insert(2, vq.dgrams[0])          # never completes (keys removed, capture cut) stay pending in ITS session only
        vq.dgrams.insert(1, vq.dgrams[0])
    fv, fb, ft = mk_flow(0, sport=443), mk_flow(1, ipv=6, sport=443), mk_flow(2)
    vfr = [udp_frame(fv, g.d, g.payload) for g in vq.dgrams]
    bfr = [udp_frame(fb, g.d, g.payload) for g in bq.dgrams]
    tfr = [fr for _t, fr in tcp_capture([bt], [ft]).pkts]
    merged, owner = [], []
    for i in range(max(len(vfr), len(bfr), len(tfr))):
        for who, lst in (("v", vfr), ("q", bfr), ("t", tfr)):
            if i < len(lst):
                merged.append(lst[i])
                owner.append((who, i))
    keylog = vq.keylog + bq.keylog + bt.keylog
    ts0 = 1_700_000_000_000_000
    vtruth = [(g.d, g.stream) for g in vq.dgrams if g.stream]

    stamp = {id(fr): ts0 + 1013 * i for i, fr in enumerate(merged)}

    def run(frames, kl, ts_of=None, opts=()):
        # every packet keeps the capture time it has in the fault-free capture (a damaged packet inherits its original's)
        pk = [((ts_of or {}).get(i, stamp.get(id(fr))), fr) for i, fr in enumerate(frames)]
        res = runner.run_inproc(pcapng_bytes(pk), "\n".join(kl) + "\n", opts=list(opts))
        if res.crashed or res.out is None:
            return None, "run aborted: " + (res.exc or "no output").strip().splitlines()[-1]
        o = Observation(res.out)
        proj = dict(v=[(d, pl) for d, _t, pl, _a, _b in o.udp_dgrams(fv.client.ip, fv.client.port, fv.server.ip, 443)],
                    q=[(d, t, pl) for d, t, pl, _a, _b in o.udp_dgrams(fb.client.ip, fb.client.port, fb.server.ip, 443)],
                    t=None, problems=o.problems[:2])
        cv = o.tcp_conv(ft.client.ip, ft.client.port, ft.server.ip, ft.server.port)
        proj["t"] = None if cv is None else (cv["streams"]["c"], cv["streams"]["s"], [(d, t, p) for d, t, p, _n in cv["segs"]])
        return proj, None
    base, err = run(merged, keylog)
    if err or base["v"] != vtruth or base["problems"]:
        return dict(results=[dict(fault=dict(kind="none"), bad=["fault-free QUIC run is not exact: " + str(err or base["problems"])])], n=1, suite=suite)
    base_a, _err_a = run(merged, keylog, opts=["-a"])         # reference for the runs with metadata export
    vidx = [i for i, (w, _k) in enumerate(owner) if w == "v"]
    faults = []
    for i in vidx:
        faults.append(dict(kind="drop", pkt=i))
    for i in vidx[1:]:
        faults.append(dict(kind="cut_before", pkt=i))
    for i in vidx[:-1]:
        faults.append(dict(kind="cut_after", pkt=i))
    nlines = len(vq.keylog)
    for sset in range(1, 2 ** nlines):
        faults.append(dict(kind="rmkeys", lines=[j for j in range(nlines) if sset >> j & 1]))
    faults.append(dict(kind="randsecrets"))
    for i in vidx:
        plen = len(vq.dgrams[owner[i][1]].payload)
        poss = sorted(set(list(range(min(30, plen))) + [plen // 2, plen - 17, plen - 1]) & set(range(plen)))
        if quick:
            poss = rng.sample(poss, min(5, len(poss)))
        for p in poss:
            faults.append(dict(kind="corrupt", pkt=i, pos=p, op="xor", val=rng.choice([0x01, 0x80, 0x40, 0xFF])))
        for t in rng.sample([1, 5, 6, 7, 20, 23, max(1, plen - 1)], 2 if quick else 7):
            if 0 < t < plen:
                faults.append(dict(kind="truncate", pkt=i, to=t))
        # overwrites that change the header FORM of the datagram (short <-> long, every long type incl. Retry and Version Negotiation),
        # with the following bytes left as they are or made to look like version 1 + an 8-byte DCID so that the dissector gets further
        forms = [0xF0, 0xFF, 0xC0, 0xE3, 0xD1, 0x80, 0x40, 0x7F]
        for v in (forms if not quick else rng.sample(forms, 3)):
            faults.append(dict(kind="sethdr", pkt=i, val=v, v1=False))
            faults.append(dict(kind="sethdr", pkt=i, val=v, v1=True))
    # an overwritten payload may be ANY bytes -- among them a short-header packet that unmasks to the other key phase and fails
    # authentication (built with the victim's own header-protection key, tag damaged): in place of victim datagram i
    import copy as _copy
    for i in vidx[2:]:
        g = vq.dgrams[owner[i][1]]
        save = _copy.deepcopy((vq.pn[g.d], vq.largest_seen[g.d]))
        try:
            raw, _m = vq.pkt(g.d, "a", Q.f_ping() + Q.f_padding(24), gen=vq.gen[g.d] + 1)
        except Exception:
            raw = None
        vq.pn[g.d], vq.largest_seen[g.d] = save
        if raw:
            faults.append(dict(kind="forged", pkt=i, payload=(raw[:-1] + bytes([raw[-1] ^ 0x5A])).hex(), replace=bool(i % 2)))
    # arbitrary UDP payloads ON THE VICTIM'S OWN 4-tuple (either direction): random bytes behind a short-header first byte, of lengths around
    # the minimum a header-protection sample needs, and long ones
    for i in vidx:
        for _ in range(2 if quick or i != vidx[0] else 6):
            d = rng.choice("cs") if i != vidx[0] else "s"
            n = rng.choice([1, 4, 17, 21, 22, 25, 29, 37, 60, 300, 1200])
            faults.append(dict(kind="own_udp", pkt=i, d=d, payload=(bytes([0x40 | rng.getrandbits(6)]) + bytes(rng.getrandbits(8) for _ in range(n))).hex()))
    # foreign UDP traffic between other endpoints: arbitrary payloads, among them ones shaped like short- and long-header QUIC packets
    for _ in range(3 if quick else 12):
        ln = rng.choice([1, 5, 21, 22, 40, 300, 1200, 1500])
        first = rng.choice([0x40 | rng.getrandbits(6), 0xC0 | rng.getrandbits(6), rng.getrandbits(8)])
        body = bytes(rng.getrandbits(8) for _ in range(ln - 1))
        if first & 0x80 and ln > 8 and rng.random() < 0.7:
            body = b"\x00\x00\x00\x01" + bytes([rng.choice([0, 8, 20, 21, 255])]) + body[5:]
        faults.append(dict(kind="foreign_udp", payload=(bytes([first]) + body).hex(), at=rng.randrange(len(merged) + 1), port=rng.choice([443, 4433, 53])))
    # a Version Negotiation packet (version 0, list of versions) from other endpoints, and one shaped like an answer to the victim's Initial
    vn = bytes([0x80 | rng.getrandbits(7)]) + b"\x00\x00\x00\x00" + bytes([8]) + bytes(rng.getrandbits(8) for _ in range(8)) + bytes([4]) + b"abcd" + b"\x00\x00\x00\x01\x6b\x33\x43\xcf"
    faults.append(dict(kind="foreign_udp", payload=vn.hex(), at=rng.randrange(len(merged) + 1), port=443))
    fx = mk_flow(7, sport=443)
    results = []
    for f in faults:
        frames, kl = list(merged), list(keylog)
        k = f["kind"]
        if k == "own_udp":
            fr = udp_frame(fv, f["d"], bytes.fromhex(f["payload"]))
            stamp[id(fr)] = stamp[id(merged[f["pkt"]])] + 1
            frames = frames[:f["pkt"] + 1] + [fr] + frames[f["pkt"] + 1:]
        elif k == "forged":
            g = vq.dgrams[owner[f["pkt"]][1]]
            fr = udp_frame(fv, g.d, bytes.fromhex(f["payload"]))
            stamp[id(fr)] = stamp[id(merged[f["pkt"]])] + (0 if f["replace"] else 1)
            if f["replace"]:
                frames[f["pkt"]] = fr
            else:
                frames = frames[:f["pkt"] + 1] + [fr] + frames[f["pkt"] + 1:]
        elif k == "foreign_udp":
            fxp = mk_flow(7, sport=f["port"])
            extra = [udp_frame(fxp, "c", bytes.fromhex(f["payload"])), udp_frame(fxp, "s", bytes.fromhex(f["payload"])[::-1])]
            for e in extra:
                stamp[id(e)] = stamp[id(merged[min(f["at"], len(merged) - 1)])] + (1 if f["at"] < len(merged) else 2000)
            frames = frames[:f["at"]] + extra + frames[f["at"]:]
        elif k == "drop":
            frames = [fr for i, fr in enumerate(frames) if i != f["pkt"]]
        elif k == "cut_before":
            frames = [fr for i, fr in enumerate(frames) if not (owner[i][0] == "v" and i < f["pkt"])]
        elif k == "cut_after":
            frames = [fr for i, fr in enumerate(frames) if not (owner[i][0] == "v" and i > f["pkt"])]
        elif k == "rmkeys":
            kl = [l for j, l in enumerate(kl) if j not in f["lines"]]
        elif k == "randsecrets":
            kl = [" ".join(l.split()[:2] + [bytes(rng.getrandbits(8) for _ in range(len(l.split()[2]) // 2)).hex()]) if j < nlines else l for j, l in enumerate(kl)]
        else:
            g = vq.dgrams[owner[f["pkt"]][1]]
            data = bytearray(g.payload)
            if k == "corrupt":
                data[f["pos"]] ^= f["val"]
            elif k == "sethdr":
                data[0] = f["val"]
                if f["v1"] and len(data) > 16:
                    data[1:6] = b"\x00\x00\x00\x01\x08"
            else:
                data = data[:f["to"]]
            frames[f["pkt"]] = udp_frame(fv, g.d, bytes(data))
        got, err = run(frames, kl, ts_of={f["pkt"]: stamp[id(merged[f["pkt"]])]} if k in ("corrupt", "truncate", "sethdr") else None)
        bad = []
        if err:
            bad.append(err)
        else:
            if got["problems"]:
                bad.append("output malformed: " + got["problems"][0])
            if got["q"] != base["q"]:
                bad.append("QUIC bystander is exported differently from the fault-free run")
            if got["t"] != base["t"]:
                bad.append("TLS bystander is exported differently from the fault-free run")
            if k == "foreign_udp" and got["v"] != base["v"]:
                bad.append("victim (here: a third healthy QUIC flow) is exported differently once foreign UDP datagrams are in the capture")
            if k in ("foreign_udp", "sethdr") and base_a is not None:
                # the same fault with metadata export: other code paths handle the frames that are not stream data (Version Negotiation, CRYPTO)
                ga, ea = run(frames, kl, ts_of={f["pkt"]: stamp[id(merged[f["pkt"]])]} if k == "sethdr" else None, opts=["-a"])
                if ea:
                    bad.append("with -a: " + ea)
                elif ga["q"] != base_a["q"] or ga["t"] != base_a["t"]:
                    bad.append("with -a: a bystander is exported differently from the fault-free -a run")
                elif ga["problems"]:
                    bad.append("with -a: output malformed: " + ga["problems"][0])
            if k in ("drop",) and not is_sublist(got["v"], vtruth):
                bad.append("victim: exported datagrams are not an order-preserving sub-list of the datagrams sent (altered or invented data)")
            if k in ("cut_before", "cut_after", "rmkeys") and not (is_sublist(got["v"], vtruth)):
                bad.append("victim: exported datagrams are not a sub-list of the datagrams sent (altered or invented data)")
            if k == "cut_after" and got["v"] != vtruth[:len(got["v"])]:
                bad.append("victim: export after a cut is not a prefix of the datagrams sent")
        results.append(dict(fault=f, bad=bad))
    return dict(results=results, n=len(faults) + 1, suite=suite, seed=seed)


def run(chk):
    quick = chk.tier == "quick"
    rng = random.Random(chk.seed)
    r = tlc.run("TlsSession", dict(c01.BASE, MaxApp="3", Faults='{"nokeys","nosuite","midstart"}'),
                invariants=["ExportedIsPrefix", "NeverGarbage", "NeverCrashes", "ClosedGate", "ExportedEqualsSent"], view="View", timeout=900)
    chk.tlc("TlsSession with information-removing faults", r)
    r = tlc.run("TlsSession", dict(c01.BASE, MaxApp="3", AllowLoss="TRUE"), invariants=["PrefixUnderLoss"], view="View", timeout=600)
    chk.tlc("KF_LossResync (expected counterexample)", r, expect_ok=False)
    chk.extra["kf_model"] = dict(KF_LossResync=dict(violates=r.violated, expected="PrefixUnderLoss"))
    r = tlc.run("TlsSession", dict(c01.BASE, MaxApp="3", AllowLoss="TRUE", Fams='{"AEAD","CHACHA"}'), invariants=["PrefixUnderLoss"],
                view="View", timeout=600)
    chk.tlc("loss under AEAD families keeps the prefix", r)
    jobs = []
    shapes = [dict(), dict(abbreviated=True), dict(group="flight"), dict(tickets=True)]
    for i, kind in enumerate(VICTIMS if not quick else VICTIMS[:6]):
        for sh in (shapes if not quick else [shapes[i % len(shapes)]]):
            if kind[0] == R.TLS13 and sh.get("abbreviated"):
                continue
            jobs.append((base_scenario(kind, rng.randrange(1 << 30), rng, sh), None, rng.randrange(1 << 30), quick))
    results = pool_map(_one, jobs, chunksize=1)
    kinds = {}
    for res in results:
        if "machinery" in res:
            raise Exception("fault enumeration failed in the harness: " + res["machinery"])
        chk.evaluations += res["n"]
        for fr in res["results"]:
            f = fr["fault"]
            kinds[f["kind"]] = kinds.get(f["kind"], 0) + 1
            chk.distinct.add(json.dumps([res["sc"]["conns"][0]["ver"], res["sc"]["conns"][0]["suite"], res["sc"]["conns"][0]["shape"], f], sort_keys=True))
            for b in fr["bad"]:
                kf = None
                # the finding is confined to where the model shows it (TlsSession.tla PrefixUnderLoss: violated for CBC / RC4, holds for
                # AEAD / ChaCha20): an AEAD victim that exports a non-prefix after a loss is a NEW violation
                if b.startswith("victim direction") and f["kind"] in ("drop", "cut_before") and not suites()[res["sc"]["conns"][0]["suite"]].aead:
                    kf = "KF_LossResync"
                chk.violation(f"fault {f}: {b}", dict(scenario=res["sc"], fault=f, finding=b), kf_key=kf)
        chk.sample(dict(victim=[R.VNAME[res["sc"]["conns"][0]["ver"]], hex(res["sc"]["conns"][0]["suite"])], faults=res["n"] - 1,
                        example=res["results"][min(5, len(res["results"]) - 1)]["fault"]), limit=3)
    qjobs = [(st, rng.randrange(1 << 30), quick, g) for st in (["1301", "1303"] if quick else ["1301", "1302", "1303", "1304"]) for g in (False, True, "early")]
    for res in pool_map(_one_quic, qjobs, chunksize=1):
        if "machinery" in res:
            raise Exception("QUIC fault enumeration failed in the harness: " + res["machinery"])
        chk.evaluations += res["n"]
        for fr in res["results"]:
            f = fr["fault"]
            kinds["quic_" + f["kind"]] = kinds.get("quic_" + f["kind"], 0) + 1
            chk.distinct.add(json.dumps(["quic", res["suite"], res.get("seed"), f], sort_keys=True))
            for b in fr["bad"]:
                chk.violation(f"QUIC victim (suite {res['suite']}) fault {f}: {b}", dict(quic_victim=res["suite"], seed=res.get("seed"), fault=f, finding=b))
    # named unsupported inputs (outside C01's claim, inside C03's): TLS 1.3 KeyUpdate (the direction goes dark after it -- exactly the data
    # sent before it is exported, the other direction is complete) and HelloRetryRequest.  TLC checks the implementation-shaped model,
    # behaviours are replayed and the export must equal the model's prediction (which is a prefix of the data sent).
    U = dict(c01.BASE, Vers='{"TLS13"}', Fams='{"AEAD","CHACHA"}', Unsup='{"keyupdate","hrr"}')
    r = tlc.run("TlsSession", dict(U, MaxApp="3" if quick else "4"), invariants=["ExportedIsPrefix", "NeverGarbage", "NeverCrashes", "KeyUpdateDark", "ExportedEqualsSent"],
                properties=["ExportMonotone"], view="View", timeout=1500)
    chk.tlc("TlsSession with KeyUpdate / HelloRetryRequest", r)
    g = tlc.run("TlsSession", dict(U, MaxApp="4", EmitOn="TRUE"), invariants=["Emit"], simulate=(150 if quick else 2000, 30), workers=1, seed=chk.seed, timeout=600)
    chk.tlc("TlsSession generate KeyUpdate / HelloRetryRequest", g)
    ub = [b for b in {json.dumps(b, sort_keys=True): b for b in g.printed}.values() if b["ku"] or b["hrr"]]
    rng.shuffle(ub)
    nun = 0
    for res in pool_map(c01._run_one, [(b, c01.conn_desc(b, rng)) for b in ub[: 150 if quick else 3000]]):
        if "machinery" in res:
            raise Exception("replay failed in the harness: " + res["machinery"])
        chk.evaluations += 1
        nun += 1
        kinds["unsupported_tls13"] = kinds.get("unsupported_tls13", 0) + 1
        chk.distinct.add(json.dumps(["unsup", res["beh"]["ku"], res["beh"]["hrr"], res["sc"]["conns"][0]["seed"]]))
        if not res["ok"]:
            chk.violation(f"TLS 1.3 connection with KeyUpdate of {res['beh']['ku']} / HelloRetryRequest={res['beh']['hrr']}: {res['why']} "
                          f"(expected: exactly the data sent before the key update)", dict(scenario=res["sc"], behaviour=res["beh"], why=res["why"]))
    chk.extra["faults_by_kind"] = kinds
    chk.rule = ("single faults {drop packet i, cut before/after i, every subset of the victim's key-log lines, random secrets, unknown suite, "
                "byte corruption / truncation at header, hello-field, body positions of every victim packet, plain HTTP on 443, UDP "
                "payloads of 5 length classes x 5 shapes} applied to a TLS victim of several cipher kinds and handshake shapes beside "
                "two healthy TLS bystanders; evaluations = runs; distinct = distinct (victim, fault)")
    chk.assumptions += ["damage is applied to payload bytes with checksums recomputed (bad checksums are C11's subject)",
                        "for QUIC victims a deleted datagram removes that datagram only (order-preserving sub-list accepted), see DESIGN 6-C03"]


def replay(chk, path):
    obj = json.load(open(path))
    sc, f = obj["scenario"], obj["fault"]
    cap, keylog, conns, flows = build_tls_capture(sc)
    rng = random.Random(1)
    if f["kind"] == "nosuite":
        sc["conns"][0]["shape"]["sh_suite_override"] = 0xC03C
        cap, keylog, conns, flows = build_tls_capture(sc)
        pkts, kl = cap.pkts, keylog
    else:
        pkts, kl = apply_fault(cap, keylog, conns, flows, f, rng)
    res = runner.run_inproc(pcapng_bytes(pkts), "\n".join(kl) + "\n")
    print(json.dumps(dict(crashed=res.crashed, exc=(res.exc or "")[-400:]), indent=1))
    return 1 if res.crashed else 0
