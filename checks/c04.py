"""C04 -- concurrent connections are demultiplexed; each is exported as if it were alone.
Spec: spec/Demux.tla (session matching of handle_packet / handle_quic_packet / packet_isserver with CID learning,
every order-preserving merge of N connections' packet sequences, endpoint-sharing patterns, CID lengths incl. 0 and
prefix-related CIDs, migration, set-iteration order as nondeterminism; contract DeliveredIsOwn / OwnSequence /
OneSessionPerConn).  Conformance: the model's connection sets are realised as real TLS and QUIC connections (same
address patterns and connection IDs); merges emitted by TLC plus seeded random merges are run through the working
tree; metamorphic oracle: per-flow projection of the merged capture = projection of the connection's solo capture
= ground truth; `match` hook events are validated against the contract (the session chosen for a packet is the
session of its own connection)."""
import json
import random

from checks import demux_cfg
from harness import runner, tlc
from harness.core import pool_map
from harness.quicrun import build_conn as build_quic
from observe.pcapng import Observation
from wire import quicref as Q
from wire import tlsref as R
from wire.capture import Capture, segment, tcp_capture
from wire.container import pcapng_bytes
from wire.l2l4 import Endpoint, Flow, udp_frame
from wire.tlsconn import TlsConn
from harness.tlsrun import suites

INV = ["DeliveredIsOwn", "OwnSequence", "OneSessionPerConn"]

# concrete connection sets mirroring demux_cfg.SETS (host numbers, ports, CIDs as hex)
def T(c, s, ipv=4, resume_of=None):
    return dict(proto="tls", c=c, s=s, ipv=ipv, resume_of=resume_of)


def QC(c, s, odcid, ccid, scid, c2=None, ncid=False, ipv=4):
    return dict(proto="quic", c=c, s=s, c2=c2, odcid=odcid, ccid=ccid, scid=scid, ncid=ncid, ipv=ipv)


CONCRETE = {
    "one quic, empty client cid": [QC((1, 40000), (2, 443), "0707070707070707", "", "0505")],
    "one quic, both cids empty": [QC((1, 40000), (2, 443), "0707070707070707", "", "")],
    "two quic, prefix-related client cids": [QC((1, 40000), (2, 443), "0701070707070707", "01", "05"), QC((1, 40001), (2, 443), "0702070707070707", "0102", "06")],
    "two quic, same cids, different clients": [QC((1, 40000), (2, 443), "0701070707070707", "01", "05"), QC((3, 40000), (2, 443), "0702070707070707", "01", "05")],
    "two quic, empty cids, same client host": [QC((1, 40000), (2, 443), "0701070707070707", "", ""), QC((1, 40001), (2, 443), "0702070707070707", "", "")],
    "quic with migration and new cid + tls on same numbers": [QC((1, 40000), (2, 443), "0701070707070707", "0101", "0505", c2=(1, 40009), ncid=True), T((1, 40000), (2, 443))],
    "same client port towards two servers, tls+quic": [T((1, 40000), (2, 443)), T((1, 40000), (3, 443)), QC((1, 40000), (3, 443), "0703070707070707", "", "05")],
    "three quic: empty, one-byte and two-byte cids": [QC((1, 40000), (2, 443), "0701070707070707", "", "09"), QC((1, 40001), (2, 443), "0702070707070707", "09", ""),
                                                      QC((4, 40000), (2, 443), "0703070707070707", "0909", "0909")],
    "quic whose new cid extends its old cid (prefix within one side)": [QC((1, 40000), (2, 443), "0701070707070707", "0101", "0505", ncid="extend"), QC((1, 40001), (2, 443), "0702070707070707", "02", "05")],
    "late quic (handshake before the capture start) next to quic with empty cids": [
        QC((1, 40000), (2, 443), "0701070707070707", "", "0505"), dict(QC((3, 40001), (2, 443), "0702070707070707", "04", "0606"), late=True),
        QC((1, 40002), (2, 443), "0703070707070707", "", "")],
    # session resumption: the second and third connection reuse the first one's master secret (abbreviated handshakes, fresh randoms)
    "tls session resumed twice": [dict(T((1, 40000), (2, 443)), resumable=True), T((1, 40001), (2, 443), resume_of=0), T((1, 40002), (2, 443), resume_of=0)],
    # one TLS connection captured on both sides of an address translator (tcpdump -i any on a NAT / container host): the same bytes, hence the same
    # client random and the same key-log lines, on two 4-tuples -- a key-log line does not belong to exactly one connection of the capture
    "tls seen on both sides of a NAT (same client random twice)": [T((1, 40000), (2, 443)), dict(T((9, 50123), (2, 443)), twin_of=0), T((1, 40001), (2, 443))],
    # two TLS 1.3 connections whose key-log lines differ in completeness: all four traffic secrets for the first, application secrets only for the second
    # (and the reverse): what is derived for one connection must not survive into the derivation for the next
    "two tls 1.3, one with application secrets only": [dict(T((1, 40000), (2, 443)), kind13=0), dict(T((1, 40001), (2, 443)), kind13=1, hs_in_log=False),
                                                       dict(T((3, 40000), (2, 443)), kind13=2), dict(T((3, 40002), (2, 443)), kind13=0, hs_in_log="c")],
    # beyond the model's sets: more connections, mixed IP versions
    "mixed: 2 tls (v4/v6 same host numbers) + 2 quic": [T((1, 40000), (2, 443)), T((1, 40000), (2, 443), ipv=6),
                                                        QC((1, 40000), (2, 443), "0a01070707070707", "aa01", "bb01", ipv=6), QC((1, 40002), (2, 443), "0a02070707070707", "aa02", "bb02")],
}
TLS_KINDS = [(R.TLS13, 0x1301), (R.TLS12, 0xC02F), (R.TLS10, 0x002F), (R.TLS12, 0x003C), (R.TLS10, 0x0005), (R.TLS13, 0x1303)]


def ep(host, port, ipv, server):
    if ipv == 4:
        ip = bytes([10, 0, 0, host])
    else:
        ip = bytes.fromhex("20010db8000000000000000000000000")[:15] + bytes([host])
    return Endpoint(bytes([2, 0x5E if server else 0xC1, 0, 0, ipv, host]), ip, port)


def std_quic_beh(suite, ncid=False):
    """a plain Quic.tla behaviour (handshake, four stream datagrams) in the Emit format"""
    return dict(suite=suite, first="same", split=[1], twoPkts=False, retry=False, zrtt=False, coalesce=True,
                cfApp=False,
                hist=[dict(d="c", pkts=[dict(t="I", d="c", gen=0, frames=[dict(ft="crypto", a="CH", b=1)])]),
                      dict(d="s", pkts=[dict(t="I", d="s", gen=0, frames=[dict(ft="other", a="ack", b=0), dict(ft="crypto", a="SH", b=1)]),
                                        dict(t="H", d="s", gen=0, frames=[dict(ft="crypto", a="SF", b=1)])]),
                      dict(d="c", pkts=[dict(t="I", d="c", gen=0, frames=[dict(ft="other", a="ack", b=0)]),
                                        dict(t="H", d="c", gen=0, frames=[dict(ft="crypto", a="CF", b=1)]),
                                        dict(t="A", d="c", gen=0, frames=[dict(ft="stream", a=1, b=0)])]),
                      dict(d="s", pkts=[dict(t="A", d="s", gen=0, frames=[dict(ft="other", a="done", b=0)] + ([dict(ft="other", a="ncid", b=0)] if ncid else []) +
                                             [dict(ft="stream", a=2, b=0)])]),
                      dict(d="c", pkts=[dict(t="A", d="c", gen=0, frames=[dict(ft="stream", a=3, b=0), dict(ft="other", a="ack", b=0)])]),
                      dict(d="s", pkts=[dict(t="A", d="s", gen=0, frames=[dict(ft="other", a="ack", b=0), dict(ft="stream", a=4, b=0)])])],
                out=[], kf=False)


def build_one(cd, idx, seed):
    """-> list of (dir, frame builder(ts) -> bytes...) as ready frames, plus ground truth"""
    rng = random.Random(seed)
    ipv = cd["ipv"]
    fl = Flow(ep(*cd["c"], ipv, False), ep(*cd["s"], ipv, True))
    if cd["proto"] == "tls":
        if cd.get("twin_of") is not None:       # the same connection again (same seed => same randoms, keys, records), on another 4-tuple
            seed, idx = seed - idx + cd["twin_of"], cd["twin_of"]
        ver, suite = TLS_KINDS[(idx + seed) % len(TLS_KINDS)]
        shape = {}
        if cd.get("kind13") is not None:
            ver, suite = R.TLS13, [0x1301, 0x1302, 0x1303][(cd["kind13"] + seed) % 3]
            if cd.get("hs_in_log") is not None:
                shape["hs_in_log"] = cd["hs_in_log"]
        if cd.get("resume_of") is not None or cd.get("resumable"):
            base_seed = seed - idx + (cd["resume_of"] if cd.get("resume_of") is not None else idx)
            ver, suite = [(R.TLS12, 0xC02F), (R.TLS12, 0x003C), (R.TLS10, 0x002F), (R.TLS12, 0xCCA8)][base_seed % 4]
            import random as _r
            shape = dict(ms_hex=bytes(_r.Random(base_seed * 7919).getrandbits(8) for _ in range(48)).hex())
            if cd.get("resume_of") is not None:
                shape["abbreviated"] = True
        c = TlsConn(ver, suites()[suite], seed=seed, **shape)
        for d, n in [("c", 40 + idx), ("s", 300 + idx), ("c", 10), ("s", 1000 + idx)]:
            c.app(d, n)
        # (every third build: records span several segments, so that a cut or a loss leaves a partial record buffered)
        cap = tcp_capture([c], [fl], isns=[(1000 + 97 * idx + seed % 1000, 7000 + 31 * idx)], mss=[None, None, 120][seed % 3])
        frames = [fr for _ts, fr in cap.pkts]
        return dict(proto="tls", flow=fl, frames=frames, keylog=c.keylog, truth={"c": c.truth("c"), "s": c.truth("s")})
    b = std_quic_beh(rng.choice(["1301", "1302", "1303", "1304"]), cd["ncid"])
    params = dict(odcid=cd["odcid"], cid_c=cd["ccid"], cid_s=cd["scid"], cid_switch=bool(cd["ncid"]), ncid_extend=(cd["ncid"] == "extend"),
                  pnlen={"c": rng.choice([1, 2]), "s": rng.choice([1, 2, 4])})
    if cd["ncid"]:
        rng2 = random.Random(seed)
    c, payload = build_quic(b, seed, params)
    fl2 = Flow(ep(*cd["c2"], ipv, False), ep(*cd["s"], ipv, True)) if cd.get("c2") else fl
    frames = []
    for i, g in enumerate(c.dgrams):
        f = fl2 if i >= 4 else fl           # the client migrates before its last datagram (the server answers to the new address)
        frames.append(udp_frame(f, g.d, g.payload))
    if seed % 3 == 1 and not cd.get("late"):      # retransmitted first flight: the first client and server datagrams are captured again later
        frames.insert(3, frames[1])
        frames.insert(3, frames[0])
    return dict(proto="quic", flow=fl, flow2=fl2, frames=frames, keylog=c.keylog, truth=[(g.d, g.stream) for g in c.dgrams if g.stream], nmig=4)


def project(out, conn, opts=()):
    from harness.tlsrun import out_port
    o = Observation(out)
    sp = out_port(conn["flow"].server.port, list(opts))
    if conn["proto"] == "tls":
        f = conn["flow"]
        cv = o.tcp_conv(f.client.ip, f.client.port, f.server.ip, sp)
        if cv is None:
            return None, o.problems
        return (cv["streams"]["c"], cv["streams"]["s"], [(d, p) for d, _t, p, _n in cv["segs"]]), o.problems
    f = conn["flow"]
    return [(d, pl) for d, ts, pl, _a, _b in o.udp_dgrams(f.client.ip, f.client.port, f.server.ip, sp)], o.problems


def chunk(n, m):
    """split range(n) into m consecutive chunks (as even as possible, none empty when n >= m)"""
    return [list(range(n * j // m, n * (j + 1) // m)) for j in range(m)]


def merged_frames(conns, order, steps):
    """order: sequence of connection indices (1-based, model steps) -> merged list of (conn index, frame)"""
    parts = [chunk(len(c["frames"]), steps[i]) for i, c in enumerate(conns)]
    pos = [0] * len(conns)
    out = []
    for i in order:
        i -= 1
        for k in parts[i][pos[i]]:
            out.append((i, conns[i]["frames"][k]))
        pos[i] += 1
    return out


def _one(job):
    name, seed, order, packetwise = job
    try:
        conns = [build_one(cd, i, seed + i) for i, cd in enumerate(CONCRETE[name])]
    except Exception:
        import traceback
        return dict(machinery=traceback.format_exc()[-1500:])
    steps = [4 if c["proto"] == "tls" else 6 for c in conns]
    for i, cd in enumerate(CONCRETE[name]):
        if cd.get("late"):              # Demux.tla Late: the three handshake datagrams lie before the capture start
            conns[i]["frames"], conns[i]["partial"], steps[i] = conns[i]["frames"][3:], True, 3
    if packetwise:                      # a seeded order-preserving merge at single-packet granularity
        rng = random.Random(seed)
        if seed % 3 == 0:               # one connection of the set is incomplete: the capture stops inside it, or one of its packets was lost.
            v = conns[rng.randrange(len(conns))]      # "as if it were alone" then means: the same partial export as alone -- and the others untouched
            fr = list(v["frames"])
            if seed % 2 and len(fr) > 6:
                del fr[rng.randrange(3, len(fr) - 1)]
            else:
                fr = fr[:len(fr) - rng.randint(1, min(6, max(1, len(fr) - 3)))]
            v["frames"], v["partial"] = fr, True
        steps = [len(c["frames"]) for c in conns]
        pool = [i + 1 for i, c in enumerate(conns) for _ in c["frames"]]
        rng.shuffle(pool)
        order = pool
    mf = merged_frames(conns, order, steps)
    if seed % 3 == 2:                   # "... and unrelated traffic": what real captures hold besides the connections (wire/zoo.py)
        from wire import zoo as _zoo
        rz = random.Random(seed + 9)
        for _nm, fr in _zoo.frames(conns[0]["flow"], rz):
            mf.insert(rz.randrange(len(mf) + 1), (-1, fr))
    rngk = random.Random(seed + 5)
    keylog = [l for c in conns for l in c["keylog"]]
    # "... key-log lines of all connections shuffled together": the log also holds lines of many sessions that are not in the capture
    for _ in range(rngk.choice([0, 0, 50, 120, 400])):
        keylog.append(rngk.choice(["CLIENT_RANDOM %064x %096x" % (rngk.getrandbits(256), rngk.getrandbits(384)),
                                   "SERVER_TRAFFIC_SECRET_0 %064x %064x" % (rngk.getrandbits(256), rngk.getrandbits(256)),
                                   "CLIENT_HANDSHAKE_TRAFFIC_SECRET %064x %096x" % (rngk.getrandbits(256), rngk.getrandbits(384))]))
    rngk.shuffle(keylog)
    ts0 = 1_700_000_000_000_000
    opts = [[], [], [], ["-m", "443:9443"], ["-m"]][seed % 5]       # a port mapping is applied per connection, whatever the others were
    if seed % 4 == 1:
        # the secrets travel in the capture: one decryption secrets block per connection, each standing right before the first packet of its
        # connection (so later blocks follow other connections' handshakes); no key log file
        firsts = {}
        for i, (ci, _fr) in enumerate(mf):
            firsts.setdefault(ci, i)
        dsbs = [(firsts.get(ci, 0), ("\n".join(c["keylog"]) + "\n").encode()) for ci, c in enumerate(conns)]
        data = pcapng_bytes([(ts0 + 1013 * i, fr) for i, (_ci, fr) in enumerate(mf)], dsbs=dsbs)
        res = runner.run_inproc(data, None, opts=opts, trace=True)
    else:
        data = pcapng_bytes([(ts0 + 1013 * i, fr) for i, (_ci, fr) in enumerate(mf)])
        res = runner.run_inproc(data, "\n".join(keylog) + "\n", opts=opts, trace=True)
    bad = []
    if res.crashed or res.out is None:
        bad.append("merged capture: run aborted: " + (res.exc or "no output").strip().splitlines()[-1])
        return dict(name=name, seed=seed, order=order, packetwise=packetwise, bad=bad, events=[], owner=[])
    for i, c in enumerate(conns):
        solo = runner.run_inproc(pcapng_bytes([(ts0 + 1013 * k, fr) for k, fr in enumerate(c["frames"])]), "\n".join(keylog) + "\n", opts=opts)
        ps, _ = project(solo.out, c, opts) if solo.out else (None, [])
        pm, probs = project(res.out, c, opts)
        truth_ok = True
        if c.get("partial"):
            pass                        # an incomplete connection is judged against its solo export only (what it may export is C03 / C08's subject)
        elif c["proto"] == "tls":
            truth_ok = pm is not None and (pm[0], pm[1]) == (c["truth"]["c"], c["truth"]["s"])
        else:
            truth_ok = pm == c["truth"]
        if pm != ps:
            bad.append(f"connection {i} ({c['proto']}) is exported differently in the merged capture than alone")
        elif not truth_ok:
            bad.append(f"connection {i} ({c['proto']}) export differs from the data sent (alone and merged alike)")
        if probs:
            bad.append("merged output malformed: " + probs[0])
    # which connection does each captured packet belong to (ground truth for the `match` events)
    owner = [ci for ci, _fr in mf]
    ev = [e for e in res.events if e["ev"] == "match"]
    return dict(name=name, seed=seed, order=order, packetwise=packetwise, bad=bad, events=ev, owner=owner,
                kinds=[("tls" if c["proto"] == "tls" else "quic") for c in conns],
                nonempty=[[len(fr) for fr in c["frames"]] for c in conns])


def run(chk):
    quick = chk.tier == "quick"
    rng = random.Random(chk.seed)
    jobs = []
    for name in demux_cfg.SETS:
        r = tlc.run("Demux", demux_cfg.consts(name, True), invariants=INV, view="View", timeout=600)
        chk.tlc(f"Demux repaired: {name}", r)
        r0 = tlc.run("Demux", demux_cfg.consts(name, False), invariants=INV, view="View", timeout=600)
        chk.tlc(f"Demux original code: {name} (documents the repaired defect)", r0, expect_ok=False)
        chk.extra.setdefault("original_code_model", {})[name] = r0.violated or "holds"
        g = tlc.run("Demux", demux_cfg.consts(name, True), invariants=["Emit"], simulate=(30 if quick else 400, 40), workers=1,
                    seed=chk.seed, timeout=300)
        chk.tlc(f"Demux merges: {name}", g)
        orders = list({json.dumps(b["order"]): b["order"] for b in g.printed}.values())
        rng.shuffle(orders)
        for o in orders[: 12 if quick else 300]:
            jobs.append((name, rng.randrange(1 << 20), o, False))
    for name in CONCRETE:
        if name not in demux_cfg.SETS:
            n = len(CONCRETE[name])
            for _ in range(10 if quick else 200):
                order = [i + 1 for i, cd in enumerate(CONCRETE[name]) for _ in range(4 if cd["proto"] == "tls" else 6)]
                rng.shuffle(order)
                jobs.append((name, rng.randrange(1 << 20), order, False))
        for _ in range(12 if quick else 400):
            jobs.append((name, rng.randrange(1 << 20), None, True))
    results = pool_map(_one, jobs, chunksize=1)
    traces = []
    for res in results:
        if "machinery" in res:
            raise Exception("replay failed in the harness: " + res["machinery"])
        chk.evaluations += 1
        chk.distinct.add(json.dumps([res["name"], res["order"]]))
        chk.sample(dict(connections=res["name"], merge=res["order"][:40]), limit=3)
        for b in res["bad"]:
            chk.violation(f"[{res['name']}] {b}", dict(set=res["name"], seed=res["seed"], order=res["order"], packetwise=res["packetwise"], findings=res["bad"]))
        if res["events"]:
            traces.append(res)
    validate_match(chk, traces)
    chk.rule = ("merges = (a) every connection set of Demux.tla with interleavings emitted by TLC (-simulate), stretched over the real "
                "packet sequences, (b) seeded packet-granular order-preserving merges, (c) a 4-connection IPv4/IPv6 TLS+QUIC set; "
                "distinct = distinct (set, merge)")
    chk.assumptions += ["per-connection correctness is C01/C02's subject; here only equality merged = solo = truth is judged"]


def validate_match(chk, runs):
    """match events: the session chosen for every packet must be the session created by that packet's own connection"""
    from harness.tracecheck import batch
    traces = []
    for r in runs:
        # captured packets that reach the matcher: all UDP datagrams; TCP segments with payload (all frames here carry payload)
        evs = [dict(idx=e["idx"], new=bool(e["new"])) for e in r["events"]]
        if len(evs) != len(r["owner"]):
            continue        # some packets produced no match event (dropped before matching): judged end-to-end only
        # session indices are per protocol list (sessions / quic_sessions): translate owners to per-protocol connection ranks
        traces.append(dict(id=len(traces) + 1, owner=[o + 1 for o in r["owner"]], kind=r["kinds"], events=[dict(idx=e["idx"], new=e["new"], tcp=(x["proto"] == "tcp"))
                                                                                                 for e, x in zip(evs, r["events"])], _r=r))
    if not traces:
        return
    acc, prog, t = batch("TraceDemux", [{k: v for k, v in x.items() if not k.startswith("_")} for x in traces])
    chk.tlc("TraceDemux batch", t)
    chk.traces_validated += len(traces)
    for x in traces:
        if x["id"] not in acc:
            p = prog[x["id"] - 1]
            chk.violation(f"[{x['_r']['name']}] match trace rejected at packet {p}: the packet was handed to a session of another connection "
                          f"(or a second session was created for a connection)", dict(set=x["_r"]["name"], seed=x["_r"]["seed"], order=x["_r"]["order"], packet=p))


def replay(chk, path):
    obj = json.load(open(path))
    r = _one((obj["set"], obj["seed"], obj["order"], bool(obj.get("packetwise"))))
    print(json.dumps(dict(bad=r.get("bad")), indent=1))
    return 1 if r.get("bad") else 0
