MAPFORMS = [("absent", []), ("bare", []), ("pairs", [(443, 8081)]), ("pairs", [(443, 8081), (8443, 9000)]), ("pairs", [(4433, 443)]),
            ("pairs", [(8443, 8443), (443, 1)])]


def tla_mapforms():
    out = []
    for kind, pairs in MAPFORMS:
        ps = "<<" + ", ".join("<<%d, %d>>" % p for p in pairs) + ">>"
        out.append('[kind |-> "%s", pairs |-> %s]' % (kind, ps))
    return "{" + ", ".join(out) + "}"


CONSTS = dict(ExtraPorts="{8443, 4433}", ServerSide="{443, 8443, 4433, 5000, 44330}", ClientPorts="{40000, 50000}", MapForms=tla_mapforms())
