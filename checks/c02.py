"""C02 -- QUIC v1 STREAM data is exported exactly, datagram by datagram.
Spec: spec/Quic.tla (implementation-shaped QuicSession: Initial keys, CRYPTO reassembly, suite/key installation
order, 0-RTT, key-phase epochs, Retry reset, output grouping; contract DgramsEqualStreamData / OutputIsPrefix /
CryptoOk / EpochOk / KeysOk).  Conformance: TLC behaviours are concretized with the reference QUIC stack (4 suites,
offered-suite orders, CID lengths 0..20, packet-number lengths and gaps, varint widths, frame mixes, CID switch,
IPv4/IPv6) and run through the working tree; the observed (direction, payload) datagram list must equal the model's
prediction = the stream data each captured datagram carried; qpn / qepoch / qcrypto hook events are validated
against the contract (TraceQuic.tla)."""
import json
import random

from harness import tlc
from harness.core import pool_map
from harness.quicrun import run_quic, observed_dgrams
from wire import quicref as Q

BASE = dict(SuiteSet='{"1301","1302","1303","1304"}', OfferFirst='{"same","other","grease"}',
            Splits='{<<1>>,<<1,2>>,<<2,1>>,<<3,1,2>>,<<2,3,1>>,<<3,2,1>>}', MaxApp="2", MaxGen="3", AllowEarlyGuess="FALSE",
            Retries="BOOLEAN", ZeroRtts="BOOLEAN", EmitOn="FALSE", AllowLate="FALSE", AllowLateAcrossKu="FALSE", NoisePhases="{}", AllowRetx="FALSE", ExtraShapes="{}")
INV = ["OutputIsPrefix", "CryptoOk", "EpochOk", "KeysOk", "DoneExact"]
DEFS = "DoneExact == Done => DgramsEqualStreamData"
CIDLENS = [0, 1, 4, 8, 16, 20]


def params_for(rng, quick):
    return dict(odcid_len=rng.choice([8, 8, 12, 20]), c_cid_len=rng.choice(CIDLENS), s_cid_len=rng.choice(CIDLENS),
                pnlen={"c": rng.choice([1, 2, 3, 4]), "s": rng.choice([1, 2, 3, 4])}, pn_gaps=rng.choice([None, "small", "big"]),
                varint_w=rng.choice([None, None, 2, 4, 8]), cid_switch=rng.random() < 0.4, ipv=rng.choice([4, 6]),
                ch_pad=rng.choice([0, 60, 300]), tp_grease=rng.random() < 0.2,
                l2=rng.choice([{}, {}, {}, {"ip6_ext": 1}, {"ip4_opts": 1}, {"eth_pad": 1}, {"eth_fcs": 1}, {"vlan": 1}, {"qinq": 1}]),
                init_token=rng.choice([0, 0, 5, 37]), len_width=rng.choice([None, 2, 4, 8]),
                migrate_at=rng.choice([None, None, None, 5, 7]), ts_equal=rng.random() < 0.25, own_noise=rng.random() < 0.25,
                ts_step=rng.choice([None, None, 1, 2]), ts_sub=rng.choice([None, None, None, None, 500, 700]), retire_prior=rng.random() < 0.35, big_dgrams=rng.random() < 0.12, ts_zero=rng.random() < 0.08, stale_out=rng.random() < 0.1, same_ports=rng.random() < 0.15, sport=rng.choice([443, 443, 443, 4433, 50000]))        # capture times 1 or 2 microseconds apart (a burst) are still distinct times


def _sublist(a, b):
    it = iter(b)
    return all(any(x == y for y in it) for x in a)


def _one(job):
    b, seed, params, opts = job
    try:
        c, payload, fl, cap, res = run_quic(b, seed, params, opts=opts, trace=True)
    except Exception:
        import traceback
        return dict(machinery=traceback.format_exc()[-1500:], job=[b, seed, params])
    pred = [(e["d"], b"".join(payload[i] for i in e["ids"])) for e in b["out"]]
    truth = [(g.d, g.stream) for g in c.dgrams if g.stream]
    why, ok, deviation, as_predicted = "", True, False, False
    if res.crashed:
        ok, why = False, "run aborted: " + res.exc.strip().splitlines()[-1]
    else:
        got, probs = observed_dgrams(res, fl, opts)
        if got is None:
            ok, why = False, "no output file"
        elif probs:
            ok, why = False, "output malformed: " + probs[0]
        else:
            g2 = [(d, pl) for d, ts, pl in got]
            noise = any(p["t"] == "N" for dg in b["hist"] for p in dg["pkts"])
            if g2 == pred and pred != truth and noise:
                deviation = True        # documented deviation (Quic.tla NoiseDatagram, phase "flip"): model and code agree that the direction goes dark
            elif b["kf"] and b["zrtt"] and pred != truth and [x for x in g2 if x[0] == "s"] == [x for x in pred if x[0] == "s"] and \
                    _sublist(g2, pred) and g2 != pred:
                # KF_EarlySuiteGuess, wider consequence: the mis-guessed suite also selects the header-protection cipher of the 0-RTT packet, so a
                # garbage packet number enters the application-data space (shared with 1-RTT) before anything is authenticated; the client's
                # later 1-RTT packets may then be reconstructed wrongly and lost as well.  Which of them survive depends on the garbage
                # value: every order-preserving sub-list of the model's prediction with the server direction intact is this finding.
                as_predicted = True
                ok, why = False, ("0-RTT stream data is not exported (early keys from the first offered suite) and client 1-RTT data after it "
                                  "is lost too: the mis-protected 0-RTT packet polluted the shared application packet-number space")
            elif g2 == pred and pred != truth:
                # the implementation-shaped model predicts a deviation from the contract here (named deviation taken)
                as_predicted = True
                ok, why = False, ("0-RTT stream data is not exported: the early keys were derived from the first offered suite before the "
                                  "ServerHello was seen" if b["kf"] else "model and code agree on an export that differs from the data sent")
            elif g2 != truth:
                ok = False
                pred = truth
                if not g2:
                    why = f"nothing exported for the connection ({len(pred)} datagrams with stream data expected on the original ports)"
                else:
                    i = next((i for i in range(min(len(g2), len(pred))) if g2[i] != pred[i]), min(len(g2), len(pred)))
                    why = (f"exported datagrams differ from the stream data sent: {len(g2)} exported, {len(pred)} expected; first difference at "
                           f"datagram {i}: got {(g2[i][0], len(g2[i][1])) if i < len(g2) else None}, expected {(pred[i][0], len(pred[i][1])) if i < len(pred) else None}")
            else:
                # C07 for QUIC: each output datagram carries the capture time of its input datagram
                ts_in = [cap.pkts[i][0] for i, g in enumerate(c.dgrams) if g.stream]      # (from the ground truth, not from the model's prediction: in a
                # known-finding world a repaired tree exports MORE than the model predicts, and must not be blamed for it)
                ts_out = [int(ts * 10 ** 6) for d, ts, pl in got]
                if ts_in != ts_out and "-a" not in opts and not params.get("ts_sub"):
                    ok, why = False, "exported datagrams do not carry the capture times of their input datagrams"
    ev = [e for e in res.events if e["ev"] in ("qpn", "qepoch", "qcrypto", "qdec")]
    return dict(ok=ok, why=why, b=b, seed=seed, params=params, opts=opts, events=ev, pred_is_truth=(pred == truth), deviation=deviation, as_predicted=as_predicted,
                pkts=[[dict(d=g.d, noise=(g.note == "NOISE"), **m) for m in g.packets] for g in c.dgrams], nstream=len(pred))


def gen(chk, consts, num, seed, depth=40):
    r = tlc.run("Quic", dict(BASE, EmitOn="TRUE", **consts), invariants=["Emit"], simulate=(num, depth), workers=1, seed=seed,
                timeout=600, extra_defs=DEFS)
    chk.tlc("Quic generate %s" % consts, r)
    return list({json.dumps(b, sort_keys=True): b for b in r.printed}.values())


def run(chk):
    quick = chk.tier == "quick"
    rng = random.Random(chk.seed)
    r = tlc.run("Quic", dict(BASE), invariants=INV, properties=["ExportMonotone"], view="View", timeout=900, extra_defs=DEFS, coverage=True)
    chk.tlc("Quic exhaustive all worlds, 2 app datagrams", r)
    ku = dict(SuiteSet='{"1301","1303"}', OfferFirst='{"same"}', Splits='{<<1>>}', Retries="{FALSE}", ZeroRtts="{FALSE}",
              MaxApp="4" if quick else "6", MaxGen="3" if quick else "4")
    r = tlc.run("Quic", dict(BASE, **ku), invariants=INV, view="View", timeout=1500, extra_defs=DEFS)
    chk.tlc("Quic exhaustive key-update histories", r)
    r = tlc.run("Quic", dict(BASE, AllowEarlyGuess="TRUE", ZeroRtts="{TRUE}", OfferFirst='{"other","grease"}', Splits='{<<1>>}', Retries="{FALSE}"),
                invariants=["DoneExact"], view="View", timeout=600, extra_defs=DEFS)
    chk.tlc("KF_EarlySuiteGuess (expected counterexample)", r, expect_ok=False)
    r2 = tlc.run("Quic", dict(BASE, **dict(ku, AllowLate="TRUE", MaxApp="4")), invariants=INV, view="View", timeout=1500, extra_defs=DEFS)
    chk.tlc("Quic exhaustive with a delayed datagram (within a key generation)", r2)
    r3 = tlc.run("Quic", dict(BASE, **dict(ku, AllowLate="TRUE", AllowLateAcrossKu="TRUE", MaxApp="4")), invariants=INV, view="View", timeout=600, extra_defs=DEFS)
    chk.tlc("datagram delayed across a key update (not claimed by the property; documented deviation, expected counterexample)", r3, expect_ok=False)
    chk.extra["documented_deviation_late_across_key_update"] = r3.violated
    chk.extra["kf_model"] = dict(KF_EarlySuiteGuess=dict(violates=r.violated, expected="DoneExact"))
    from checks import dissect
    dissect.run(chk)                   # datagram layouts (spec/Dissect.tla) against the real dissector, field by field
    behs = gen(chk, dict(MaxApp="3"), 40 if quick else 600, chk.seed)
    behs += gen(chk, dict(ku, MaxApp="5"), 15 if quick else 300, chk.seed + 1)
    behs += gen(chk, dict(ku, MaxApp="5", SuiteSet='{"1302","1304"}'), 10 if quick else 200, chk.seed + 6)     # key updates under SHA-384 / CCM_8 suites
    late = gen(chk, dict(ku, MaxApp="5", AllowLate="TRUE"), 15 if quick else 300, chk.seed + 3)
    behs += [b for b in late if [d["sn"] for d in b["hist"]] != sorted(d["sn"] for d in b["hist"])]
    # undecryptable short-header datagrams on the connection's own 4-tuple (same phase: harmless; other phase: documented deviation,
    # the export must equal the model's prediction)
    r4 = tlc.run("Quic", dict(BASE, **dict(ku, NoisePhases='{"same"}', MaxApp="4")), invariants=INV + ["PerDirPrefix"], view="View", timeout=900, extra_defs=DEFS)
    chk.tlc("Quic exhaustive with same-phase noise datagrams", r4)
    r5 = tlc.run("Quic", dict(BASE, **dict(ku, NoisePhases='{"same","flip"}', MaxApp="4")), invariants=["PerDirPrefix", "CryptoOk", "KeysOk"], view="View", timeout=900, extra_defs=DEFS)
    chk.tlc("Quic exhaustive with other-phase noise: per-direction prefix", r5)
    r6 = tlc.run("Quic", dict(BASE, **dict(ku, NoisePhases='{"flip"}', MaxApp="3")), invariants=["DoneExact"], view="View", timeout=600, extra_defs=DEFS)
    chk.tlc("other-phase noise makes a direction go dark (documented deviation outside the property, expected counterexample)", r6, expect_ok=False)
    chk.extra["documented_deviation_noise_other_phase"] = r6.violated
    nb = gen(chk, dict(ku, MaxApp="5", NoisePhases='{"same","flip"}'), 15 if quick else 300, chk.seed + 4)
    behs += [b for b in nb if any(p["t"] == "N" for dg in b["hist"] for p in dg["pkts"])][: 150 if quick else 3000]
    # a retransmitted Initial packet of the ClientHello flight (the same CRYPTO frames again, between the pieces or behind them)
    r7 = tlc.run("Quic", dict(BASE, AllowRetx="TRUE", MaxApp="1", SuiteSet='{"1301","1303"}'), invariants=INV, view="View", timeout=900, extra_defs=DEFS)
    chk.tlc("Quic exhaustive with a retransmitted ClientHello packet", r7)
    rb = gen(chk, dict(AllowRetx="TRUE", MaxApp="2"), 30 if quick else 400, chk.seed + 8)
    rb = [b for b in rb if sum(1 for dg in b["hist"] if dg["d"] == "c" and any(f["ft"] == "crypto" and f["a"] == "CH" for pk in dg["pkts"] for f in pk["frames"]))
          > (2 if b["twoPkts"] else 1) * (2 if b["retry"] else 1)]
    rng.shuffle(rb)
    behs += rb[: 150 if quick else 2500]
    # late Handshake / Initial acknowledgements coalesced in front of 1-RTT data, CONNECTION_CLOSE followed by the peer's data still in flight
    r8_ = tlc.run("Quic", dict(BASE, ExtraShapes="LateShapes", MaxApp="2", SuiteSet='{"1301","1303"}', Splits='{<<1>>}', ZeroRtts="{FALSE}"), invariants=INV,
                  view="View", timeout=900, extra_defs=DEFS)
    chk.tlc("Quic exhaustive with late Handshake / Initial packets and CONNECTION_CLOSE", r8_)
    lb = gen(chk, dict(ExtraShapes="LateShapes", MaxApp="4", Splits='{<<1>>}'), 25 if quick else 300, chk.seed + 12)
    lb = [b for b in lb if any(pk["t"] in ("H", "I") or any(f["a"] == "close" for f in pk["frames"]) for dg in b["hist"][5:] for pk in dg["pkts"])]
    rng.shuffle(lb)
    behs += lb[: 150 if quick else 2500]
    kfb = [b for b in gen(chk, dict(AllowEarlyGuess="TRUE", ZeroRtts="{TRUE}", OfferFirst='{"other","grease"}', MaxApp="1"), 5 if quick else 40, chk.seed + 2)
           if b["kf"]]
    rng.shuffle(behs)
    behs = behs[: 900 if quick else 18000] + kfb[: 10 if quick else 100]
    def params(b):
        p = params_for(rng, quick)
        sns = [d.get("sn", i + 1) for i, d in enumerate(b["hist"])]
        if sns != sorted(sns):          # a delayed datagram: its sender chose the pn encoding for the window it knew
            p["pn_gaps"] = rng.choice([None, "small"])
            p["pnlen"] = {"c": max(2, p["pnlen"]["c"]), "s": max(2, p["pnlen"]["s"])}
        if b["kf"] or any(f["ft"] == "noise" and f["a"] == "flip" for dg in b["hist"] for pk in dg["pkts"] for f in pk["frames"]):
            # worlds in which the MODEL predicts a loss (known finding, documented deviation) are compared for equality with that prediction:
            # dimensions the model does not carry (which CID a side switches to after a NEW_CONNECTION_ID it may have lost, rebinding,
            # further noise) stay at their defaults there
            p.update(cid_switch=False, migrate_at=None, own_noise=False, ts_equal=False)
        return p
    jobs = [(b, rng.randrange(1 << 30), params(b), rng.choice([[], [], ["-m"], ["-m", "443:9443"], [], ["-d", "INFO"], ["-d", "DEBUG"]])) for b in behs]
    # greased QUIC bit (RFC 9287): the client sends the transport parameter, the server clears the bit in most of its packets, the tool runs with -g
    for j in range(0, len(jobs), 7):
        b, sd, pm, op = jobs[j]
        if not any(pk["t"] == "N" for dg in b["hist"] for pk in dg["pkts"]):
            jobs[j] = (b, sd, dict(pm, grease_bit=True, tp_grease=True), op + ["-g"])
    results = pool_map(_one, jobs)
    traces = []
    for res in results:
        if "machinery" in res:
            raise Exception("replay failed in the harness: " + res["machinery"])
        chk.evaluations += 1
        b = res["b"]
        chk.distinct.add(json.dumps([b["suite"], b["first"], b["split"], b["twoPkts"], b["retry"], b["zrtt"], b["coalesce"], b["cfApp"], b.get("sfApp"),
                                     [[(p["t"], p["gen"], [f["ft"] + str(f["a"]) for f in p["frames"]]) for p in d["pkts"]] for d in b["hist"]],
                                     res["params"]], sort_keys=True))
        chk.sample(dict(suite=b["suite"], first_offered=b["first"], ch_split=b["split"], retry=b["retry"], zero_rtt=b["zrtt"],
                        datagrams=[[p["t"] + str(p["gen"]) for p in d["pkts"]] for d in b["hist"]], params=res["params"], ok=res["ok"]), limit=3)
        if res["deviation"]:
            chk.extra["documented_deviation_runs_matching_the_model"] = chk.extra.get("documented_deviation_runs_matching_the_model", 0) + 1
        if not res["ok"]:
            # attributed to the known finding only when the export is EXACTLY what the model predicts for the named deviation
            kf = "KF_EarlySuiteGuess" if b["kf"] and b["zrtt"] and res["as_predicted"] else None
            chk.violation(f"suite {b['suite']} first={b['first']} split={b['split']} retry={b['retry']} 0rtt={b['zrtt']}: {res['why']}",
                          dict(behaviour=b, seed=res["seed"], params=res["params"], opts=res["opts"], why=res["why"]), kf_key=kf)
        elif res["events"] and not res["deviation"] and not any(f["ft"] == "noise" and f["a"] == "flip" for dg in b["hist"] for p in dg["pkts"] for f in p["frames"]):       # (a documented deviation breaks the qepoch clause of the contract by definition)
            traces.append(dict(events=res["events"], pkts=res["pkts"], b=b, seed=res["seed"], params=res["params"], retry=b["retry"]))
    # the repository's QUIC sample captures (quiche / browser traffic incl. a key update and a 1500-datagram download), every capture with
    # every key log of the directory: export vs. an independent passive QUIC decryptor (wire/quicdec.py)
    import glob, os
    from checks import samples
    sj = [(f, klf) for f, _kl in samples.quic_samples() for klf in sorted(glob.glob(os.path.dirname(f) + "/*.log"))]
    nd = 0
    for sres in pool_map(samples.run_quic_sample, sj, chunksize=1):
        chk.evaluations += 1
        nd += sres["ndg"]
        chk.distinct.add(("sample", sres["file"], sres["keylog"]))
        if sres["crashed"]:
            chk.violation(f"sample {sres['file']} with {sres['keylog']}: run aborted: {sres['exc'].strip().splitlines()[-1]}", dict(sample=sres["file"], keylog=sres["keylog"]))
        for b_ in sres["bad"]:
            chk.violation(f"sample {sres['file']} with {sres['keylog']}: {b_}", dict(sample=sres["file"], keylog=sres["keylog"], why=b_))
    chk.extra["sample_stream_datagrams_compared_with_independent_decryption"] = nd
    from harness.quictrace import validate_quic
    validate_quic(chk, traces)
    chk.rule = ("behaviours = TLC -simulate runs of Quic.tla (4 suites x offered order x ClientHello split/order/packets x Retry x 0-RTT x "
                "coalescing x <= 5 application datagrams of 6 frame-mix shapes x key updates by either side), each concretized with random "
                "CID lengths 0..20, pn lengths 1-4 and gaps, varint widths, stream ids/offsets/fin/len flags, CID switch, IPv4/IPv6, -m; "
                "distinct = distinct (behaviour, parameters)")
    chk.assumptions += ["reference QUIC stack in /verif/wire (RFC 9001 Appendix A vectors incl. ChaCha20 and Retry, agreement with the unchanged tree)",
                        "no reordering across key updates (not claimed by the property)"]


def replay(chk, path):
    obj = json.load(open(path))
    if obj.get("kind") == "dissect":
        from checks import dissect
        from types import SimpleNamespace
        print(obj["why"])
        return 1
    r = _one((obj["behaviour"], obj["seed"], obj["params"], obj.get("opts", [])))
    print(json.dumps(dict(ok=r.get("ok"), why=r.get("why")), indent=1))
    return 0 if r.get("ok") else 1
