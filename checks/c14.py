"""C14 -- every cipher-suite code point resolves to the parameters its IANA name denotes.
Spec: spec/Suites.tla -- registry (generated from the frozen copy in data/) as a constant function code -> tokens and an
independent denotation operator over the tokens; TLC enumerates all 65 536 code points, checks the well-formedness
invariants and prints the expected result table.  Conformance is exhaustive: for each of the 65 536 code points the
real split_cipher_suite is called; accepted => registered under exactly that name and resolved to exactly the
denoted parameters; outside TLExport's table => rejected (None).  The table TLC printed is additionally compared with
the Python denotation used by the reference TLS stack (three-way agreement)."""
import json

from harness import tlc
from harness.core import MachineryError
from wire import tlsref as R


def suites_data():
    reg = R.registry()
    rows = []
    for code, name in sorted(reg.items()):
        toks = ", ".join('"%s"' % t for t in name.split("_"))
        rows.append(f"  {code} :> <<{toks}>>")
    return "---- MODULE SuitesData ----\nEXTENDS TLC\nRegistry ==\n" + " @@\n".join(rows) + "\n====\n"


def _stale(job):
    from harness import runner
    from harness.tlsrun import suites
    from observe.pcapng import Observation
    from wire.capture import segment, tcp_capture
    from wire.container import pcapng_bytes
    from wire.l2l4 import mk_flow
    from wire.tlsconn import TlsConn
    seed, (ver, code), unsup = job
    try:
        a = TlsConn(ver, suites()[code], seed=seed)
        b = TlsConn(ver, suites()[code], seed=seed + 1, sh_suite_override=unsup)
        b.app("c", 60)
        b.app("s", 200)
        ccs = next(r.idx for r in a.records if r.kind == "CCS")
        sa = [sg for sg in segment(a, 0) if sg.emit < ccs]           # reset after the ClientKeyExchange: no ChangeCipherSpec captured
        sb = segment(b, 1)
        fl = mk_flow(0)
        cap = tcp_capture([a, b], [fl, fl], order=[0] * len(sa) + [1] * len(sb), isns=[(1000, 9000), (700000, 900000)], seglists=[sa, sb])
        res = runner.run_inproc(pcapng_bytes(cap.pkts), "\n".join(a.keylog + b.keylog) + "\n")
    except Exception:
        import traceback
        return dict(machinery=traceback.format_exc()[-1500:])
    bad = []
    if res.crashed or res.out is None:
        bad.append("aborted handshake + unsupported code point %04X on one 4-tuple: run aborted: %s" % (unsup, (res.exc or "no output").strip().splitlines()[-1]))
    else:
        o = Observation(res.out)
        n = sum(1 for p in o.packets if p["l4"] == "tcp" and p["payload"])
        if n:
            bad.append(f"connection selecting the unsupported code point {unsup:04X} after an aborted {code:04X} handshake on the same 4-tuple: {n} data segments "
                       f"exported (parameters of another code point were used instead of reporting it unsupported)")
    return dict(bad=bad, job=[seed, [ver, code], unsup])


def run(chk):
    r = tlc.run("Suites", {}, invariants=["WellFormed", "OutsideUnsupported", "Emit"], workers=1, timeout=900,
                files={"SuitesData.tla": suites_data()})
    chk.tlc("Suites: all 65536 code points", r)
    table = {e["code"]: e["d"] for e in r.printed}
    reg = R.registry()
    if set(table) != set(reg):
        raise MachineryError(f"TLC printed {len(table)} registry entries, registry has {len(reg)}")
    # three-way: TLA+ denotation vs the Python denotation of the reference stack
    for code, name in reg.items():
        s = R.denote(code, name)
        d = table[code]
        py = None if s is None else dict(cipher=s.cipher, mode=s.mode, keylen=s.keylen, mac=s.mac, prf=s.prf, tag=s.tag, aead=s.aead)
        tl = None if d["cipher"] == "unsupported" else dict(cipher=d["cipher"], mode=d["mode"], keylen=d["keylen"], mac=d["mac"], prf=d["prf"], tag=d["tag"], aead=d["aead"])
        if py != tl:
            raise MachineryError(f"denotations disagree for {code:04X} {name}: TLA+ {tl} / Python {py}")
    from tlexport.cipher_suite_parser import split_cipher_suite, cipher_suites
    CIPH = {"AES": "AES", "AESGCM": "AES", "AESCCM": "AES", "Camellia": "CAMELLIA", "TripleDES": "3DES", "IDEA": "IDEA", "ARC4": "RC4",
            "ChaCha20Poly1305": "CHACHA20", "ChaCha20": "CHACHA20"}
    HASH = {"SHA1": "SHA", "MD5": "MD5", "SHA256": "SHA256", "SHA384": "SHA384"}
    import logging
    logging.disable(logging.ERROR)          # "not supported" reports of the resolver: expected here by the ten-thousands
    accepted = 0
    for code in range(65536):
        cid = code.to_bytes(2, "big")
        try:
            res = split_cipher_suite(cid)
        except Exception as e:
            chk.violation(f"code point {code:04X}: resolver raised {type(e).__name__}", dict(code=code))
            continue
        chk.evaluations += 1
        if res is None:
            if cid in cipher_suites:
                chk.violation(f"code point {code:04X} is in the table but rejected", dict(code=code))
            continue
        accepted += 1
        chk.distinct.add(code)
        name = cipher_suites.get(cid)
        if code not in reg:
            chk.violation(f"code point {code:04X} accepted as {name} but not registered", dict(code=code, name=name))
            continue
        if name != reg[code]:
            chk.violation(f"code point {code:04X} is given the name {name}; the registry name is {reg[code]}", dict(code=code, name=name, registry=reg[code]))
            continue
        d = table[code]
        if d["cipher"] == "unsupported":
            chk.violation(f"code point {code:04X} {name} accepted although its name denotes no cipher TLExport implements", dict(code=code, name=name))
            continue
        algo, a1 = res["CryptoAlgo"]
        mode, m1 = res["Mode"]
        got = dict(cipher=CIPH.get(getattr(algo, "__name__", None)), keylen=res["KeyLength"], aead=bool(a1) or bool(m1),
                   tag=res["TagLength"], hash=HASH.get(getattr(res["MAC"], "__name__", None)))
        gmode = {"AESGCM": "GCM", "AESCCM": "CCM", "ChaCha20Poly1305": "POLY1305", "ARC4": "STREAM"}.get(getattr(algo, "__name__", ""), None) or \
            {"CBC": "CBC", "GCM": "GCM"}.get(getattr(mode, "__name__", ""), "?")
        want = dict(cipher=d["cipher"], keylen=d["keylen"], aead=d["aead"], tag=d["tag"] if d["aead"] else res["TagLength"],
                    hash=d["prf"] if d["aead"] else d["mac"])
        if got != want or gmode != d["mode"] or bool(a1) != d["aead"]:
            chk.violation(f"code point {code:04X} {name}: resolved to {got} mode {gmode} aead-flag {a1}, the name denotes {want} mode {d['mode']}",
                          dict(code=code, name=name, got=str(got), want=str(want)))
        if len(chk.samples) < 4 and code % 37 == 0:
            chk.sample(dict(code=f"{code:04X}", name=name, denotation=d))
    # history independence (spec/Resolver.tla): every query sequence of length <= 4 over 2 supported + 2 unsupported classes, each
    # class mapped to concrete code points (several draws); every answer must equal the answer of the one-pass enumeration above
    import random
    rng = random.Random(chk.seed)
    quick = chk.tier == "quick"
    r = tlc.run("Resolver", dict(Sup='{"s1","s2"}', Unsup='{"u1","u2"}', MaxLen="4", EmitOn="TRUE"),
                invariants=["HistoryIndependent", "UnsupportedNeverGuessed", "Emit"], workers=1, timeout=300)
    chk.tlc("Resolver: query histories", r)

    def norm(res):
        if res is None:
            return None
        return repr(sorted((k, getattr(v, "__name__", None) or repr(tuple(getattr(x, "__name__", x) for x in v)) if isinstance(v, tuple) else
                            getattr(v, "__name__", repr(v))) for k, v in res.items()))
    import logging
    logging.disable(logging.ERROR)          # "not supported" reports of the resolver: expected here by the ten-thousands
    single = {}
    sup_codes, unsup_reg, unreg = [], [], []
    for code in range(65536):
        cid = code.to_bytes(2, "big")
        single[code] = norm(split_cipher_suite(cid))
        (sup_codes if single[code] is not None else unsup_reg if code in reg else unreg).append(code)
    # the one-pass enumeration itself must be reproducible (second pass = same answers)
    seqs = [e["q"] for e in r.printed]
    nq = 0
    for q in seqs:
        for _ in range(3 if quick else 40):
            m = {"s1": rng.choice(sup_codes), "s2": rng.choice(sup_codes), "u1": rng.choice(unsup_reg or unreg), "u2": rng.choice(unreg)}
            for i, cl in enumerate(q):
                code = m[cl]
                got = norm(split_cipher_suite(code.to_bytes(2, "big")))
                nq += 1
                if got != single[code]:
                    chk.violation(f"code point {code:04X} asked after {[format(m[x], '04X') for x in q[:i]]} resolves to {got}; asked on its own it resolves to "
                                  f"{single[code]}: the answer depends on the query history", dict(queries=[m[x] for x in q], index=i))
                    break
    logging.disable(logging.NOTSET)
    chk.evaluations += nq
    chk.extra["history_sequences"] = len(seqs)
    chk.extra["history_queries"] = nq
    # which code point is resolved: the NEGOTIATED one (ServerHello), also when the client lists another suite first -- QUIC connections
    # of every suite with the first offered suite different / GREASE; installed keys are compared with the RFC schedule of the negotiated suite
    from checks import c02, c15
    qb = c02.gen(chk, dict(SuiteSet='{"1301","1302","1303","1304"}', OfferFirst='{"other","grease"}', Splits='{<<1>>}', Retries="{FALSE}", ZeroRtts="{FALSE}", MaxApp="1", MaxGen="1"),
                 20 if quick else 100, chk.seed)
    seen_sf = {}
    for b in qb:
        seen_sf.setdefault((b["suite"], b["first"]), b)
    from harness.core import pool_map
    for res in pool_map(c15._quic, [(b, rng.randrange(1 << 30), dict(pnlen={"c": 2, "s": 2})) for b in seen_sf.values()]):
        if "machinery" in res:
            raise MachineryError("harness: " + res["machinery"])
        chk.evaluations += 1
        for b_ in res["bad"]:
            chk.violation(f"QUIC connection negotiating {res['b']['suite']} while the client lists {res['b']['first']} first: {b_} (the negotiated code point must be the one resolved)",
                          dict(behaviour=res["b"], seed=res["seed"], why=b_))
    chk.extra["quic_negotiated_vs_first_offered_pairs"] = sorted(f"{a}/{b}" for a, b in seen_sf)
    # "... reported as unsupported rather than guessed", with history: a handshake with a supported non-AEAD suite that is aborted before its
    # ChangeCipherSpec, followed on the SAME 4-tuple by a connection whose ServerHello selects a code point outside the table -- nothing of
    # the second connection may be exported (no parameters may be carried over from the first)
    for res in pool_map(_stale, [(rng.randrange(1 << 30), a, u) for a in ((R.TLS12, 0x003C), (R.TLS12, 0x0005), (R.TLS11, 0x002F), (R.TLS10, 0x000A))
                                 for u in (0xC07A, 0x00FF, 0x1A1A, 0xC0B4)][:: 2 if quick else 1]):
        if "machinery" in res:
            raise MachineryError("harness: " + res["machinery"])
        chk.evaluations += 1
        for b_ in res["bad"]:
            chk.violation(b_, dict(stale=res["job"], why=b_))
    chk.extra["accepted_code_points"] = accepted
    chk.extra["registry_entries"] = len(reg)
    chk.exhaustive = True
    chk.traces_validated = accepted
    chk.rule = "all 65 536 two-byte code points, each once (exhaustive); non-trivial = the accepted ones (each its own parsing case)"
    chk.assumptions += ["the frozen registry copy data/iana_tls_cipher_suites.json (scapy + dpkt registries, 14 entries resolved / added by hand, see data/make_registry.py)"]


def replay(chk, path):
    return 0
