"""C05 -- export independent of TCP segmentation, retransmission and reordering.
Spec: spec/Reasm.tla (implementation-shaped reassembly + contract invariants, KF_* deviations switchable).
Conformance: TLC-generated schedules are concretized on real TLS connections of every cipher-state kind and
run through the working tree; hook events `seg`/`release` are validated against the contract (TraceReasm)."""
import json
import random

from harness import tlc
from harness.core import pool_map
from harness.tlsrun import run_tls
from wire import tlsref as R

INV = ["TypeOK", "ReleasedIsPrefix", "ReleasedAllAtQuiescence", "MetaIsOverlapSet"]
BASE = dict(StreamDef="<<1,2>>", H="5", MaxHeld="1", MaxDup="1", MaxSeg="8", AllowGap="FALSE", AllowWrap="FALSE", AllowMidGap="TRUE", BogusOver="TRUE", AllowOverlap="FALSE",
            Mod="64", IsnSet="{0}", EmitOn="FALSE")

# (version, suite code): one per cipher-state kind so that a mis-ordered / lost / duplicated record is visible
KINDS = [(R.TLS13, 0x1301), (R.TLS12, 0xC02F), (R.TLS12, 0xCCA8), (R.TLS12, 0x003C), (R.TLS10, 0x002F),
         (R.SSL30, 0x000A), (R.TLS10, 0x0005), (R.TLS11, 0x0041)]


def scenario(beh, stream, kind, seed, flight="app"):
    """abstract behaviour -> TLS scenario dict.  A behaviour with `midgap` steps (a segment captured ahead of the head of its own
    record while nothing else is buffered) assumes BogusOver: the 16-bit length found at bytes 3..4 of the mid-record anchor exceeds
    everything the direction still sends.  That is a fact about the concrete ciphertext, so connections are drawn (other seeds) until
    the bytes satisfy it; None when 30 draws do not."""
    for k in range(30):
        sc = _scenario(beh, stream, kind, seed + 7919 * k, flight)
        if sc is not None and bogus_over(sc):
            return sc
    return None


def bogus_over(sc):
    from harness.tlsrun import build_conn, sched_segments
    cd = sc["conns"][0]
    heads = [h["head"] for h in cd["sched"]["hist"] if h["kf"] == "midgap"]
    if not heads:
        return True
    c = build_conn(cd)
    _, cellmap = sched_segments(c, 0, cd["sched"])
    st = c.stream(cd["sched"]["dir"])
    for hd in heads:
        m = cellmap[hd]
        if len(st) - m >= 5 and m + 5 + int.from_bytes(st[m + 3:m + 5], "big") <= len(st):
            return False
    return True


def _scenario(beh, stream, kind, seed, flight="app"):
    ver, suite = kind
    rng = random.Random(seed)
    n = len(stream)
    if flight == "app":
        app = [["c", rng.randint(1, 80)]] + [["s", rng.choice([0, 1, rng.randint(2, 300)])] for _ in range(n)] + \
              [["c", rng.randint(1, 40)], ["s", rng.randint(1, 40)]]
        shape = {}
    else:
        app = [["c", rng.randint(1, 80)], ["s", rng.randint(1, 80)]]
        shape = {"group": "permsg"}
    cd = dict(ver=ver, suite=suite, seed=seed, shape=shape, app=app, flow=dict(ipv=rng.choice([4, 6])))
    l2 = rng.choice([{}, {"no_psh": 1}, {"no_psh": 1, "eth_pad": 1}, {"tcp_opts": 1}, {"vlan": 1}, {"tso": 1}])      # (drawn here so that every draw of the connection keeps it)
    # initial sequence numbers of the two directions are independent: they may be equal or close, so that segments of
    # opposite directions start at the same sequence number
    r3 = rng.random()
    if r3 < 0.25:
        x = rng.randrange(1 << 31)
        cd["isn"] = (x, x)
    elif r3 < 0.4:
        x = rng.randrange(1 << 31)
        cd["isn"] = (x, x + rng.choice([5, 100, 517]))
    sc = dict(conns=[cd], l2=l2)
    if seed % 3 == 0:       # control segments of the connection itself (pure ACK, FIN of either side, RST) at seeded positions: they carry no data and
        sc["zoo"], sc["zoo_only"] = seed, ["tcp_pure_ack", "tcp_fin", "tcp_fin_s", "tcp_rst", "tcp_rst_s"]     # say nothing about the data captured after them
    # locate the flight
    from harness.tlsrun import build_conn
    c = build_conn(cd)
    fdir = "s"
    if flight == "app":
        first = [r.idx for r in c.records if r.kind == "APP" and r.d == "s"][0]
    elif flight == "ch":            # the ClientHello itself arrives in pieces, possibly out of order (first data of the connection)
        first, fdir = 0, "c"
    elif flight == "c2":            # the client's second flight (ClientKeyExchange, ChangeCipherSpec, Finished) of a full <= 1.2 handshake
        first, fdir = [r.idx for r in c.records if r.d == "c" and r.idx > 0][0], "c"
    else:
        first = [r.idx for r in c.records if r.kind == "SH"][0]
    cd["sched"] = dict(dir=fdir, first_rec=first, cells=list(stream), hist=beh["hist"], released=beh.get("released"), garbage=beh.get("garbage"))
    # a record whose body has fewer bytes than the abstract stream gives it cells (a 1-byte ChangeCipherSpec) would map several cells to the same
    # byte offset: the concrete schedule would then not be the abstract one (segments of zero bytes, a wrap position shared by several cells) -- such
    # pairings are not concretized
    from harness.tlsrun import sched_segments as _ss
    _segs, _cm = _ss(c, 0, cd["sched"])
    if any(b <= a for a, b in zip(_cm, _cm[1:])):
        return None
    # sequence-number wrap position: spec key = (isn + cell) % Mod  ->  concrete ISN so that 2^32 falls on that cell
    mod, isn = beh.get("mod", 0), beh.get("isn", 0)
    total_cells = sum(5 + b for b in stream)
    if mod and isn + total_cells >= mod:
        from harness.tlsrun import sched_segments
        _, cellmap = sched_segments(c, 0, cd["sched"])
        wrap_byte = cellmap[mod - isn]                      # stream offset (bytes) that gets sequence number 0
        cd["isn"] = (1000, (2 ** 32 - wrap_byte - 1) % 2 ** 32) if fdir == "s" else ((2 ** 32 - wrap_byte - 1) % 2 ** 32, 5000)
    return sc


def _replay_one(job):
    sc, kf = job
    try:
        cap, conns, flows, res, obs, o = run_tls(sc, trace=True)
    except Exception as e:  # harness problem, not a verdict
        return dict(machinery=repr(e), sc=sc)
    c = conns[0]
    got = obs["conns"][0] if obs["conns"] else dict(c=b"", s=b"", found=False)
    ok = (not obs["crashed"]) and got["c"] == c.truth("c") and got["s"] == c.truth("s") and not obs["problems"]
    why = ""
    if not ok:
        if obs["crashed"]:
            why = "run aborted: " + obs["exc"].strip().splitlines()[-1]
        elif obs["problems"]:
            why = "output malformed: " + obs["problems"][0]
        else:
            why = "exported streams differ from what the endpoints sent: " + ", ".join(
                f"{d}: {len(got[d])} of {len(c.truth(d))} bytes{'' if c.truth(d).startswith(got[d]) else ' (not a prefix)'}"
                for d in "cs" if got[d] != c.truth(d))
    rel = [(e["dir"], e["len"]) for e in res.events if e.get("ev") == "release"]
    segs = [e for e in res.events if e.get("ev") == "seg"]
    # in a known-finding world the implementation-shaped model predicts the ORDER in which the flight's records are handed on: the run is
    # attributed to the finding only if the release events show exactly that order (anything else is a different violation)
    sch = sc["conns"][0].get("sched") or {}
    as_model = None
    if kf and sch.get("released") is not None and not sch.get("garbage"):
        d = sch["dir"]
        lens = [len(r.raw) for r in c.records if r.d == d]
        start = sum(1 for r in c.records[:sch["first_rec"]] if r.d == d)
        want = lens[:start] + [lens[start + k - 1] for k in sch["released"]]
        seen = [ln for dd, ln in rel if dd == d]
        as_model = seen[:len(want)] == want and (len(sch["released"]) == len(sch["cells"]) or len(seen) == len(want))
    return dict(ok=ok, why=why, kf=kf, sc=sc, nrel=len(rel), nseg=len(segs), as_model=as_model,
                events=[e for e in res.events if e.get("ev") in ("seg", "feed", "release")],
                framing={d: [len(r.raw) for r in c.records if r.d == d] for d in "cs"},
                base={d: None for d in "cs"})


def gen_behaviours(chk, stream, consts, num, depth=40, seed=1):
    r = tlc.run("Reasm", dict(BASE, StreamDef="<<%s>>" % ",".join(map(str, stream)), EmitOn="TRUE", **consts),
                invariants=["Emit"], simulate=(num, depth), workers=1, seed=seed, timeout=300)
    chk.tlc("gen %s %s" % (stream, consts), r)
    seen, out = set(), []
    for b in r.printed:
        k = json.dumps(b, sort_keys=True)
        if k not in seen:
            seen.add(k)
            out.append(b)
    return out


def run(chk):
    quick = chk.tier == "quick"
    rng = random.Random(chk.seed)
    # 1. exhaustive model checking of the KF-disabled implementation-shaped model against the contract
    cfgs = [("cuts+hold1+dup1", {}), ("wrap-all-isn", dict(StreamDef="<<1,1>>", Mod="16", IsnSet="0..15", MaxDup="0"))]
    if not quick:
        cfgs += [("hold2+dup2", dict(StreamDef="<<1,1>>", MaxHeld="2", MaxDup="2")),
                 ("hold2 <<0,3>>", dict(StreamDef="<<1,3>>", MaxHeld="2", MaxDup="1")),
                 ("3rec hold1", dict(StreamDef="<<1,1,1>>", MaxHeld="1", MaxDup="0", MaxSeg="6")),
                 ("wrap 3rec", dict(StreamDef="<<1,1,1>>", Mod="32", IsnSet="{15, 22, 27}", MaxHeld="1", MaxDup="0", MaxSeg="5"))]
    for name, upd in cfgs:
        r = tlc.run("Reasm", dict(BASE, **upd), invariants=INV, properties=["ReleaseMonotone"], view="View",
                    timeout=200 if quick else 1500, coverage=(name == "cuts+hold1+dup1"))
        chk.tlc(name, r)
    # 2. the named deviations really are deviations (documents which contract clause each breaks)
    for name, upd, expect in [("KF_GapAccept", dict(AllowGap="TRUE"), "ReleasedIsPrefix"),
                              ("KF_GapAccept (bogus length fits)", dict(AllowGap="TRUE", BogusOver="FALSE"), "ReleasedIsPrefix"),
                              ("KF_SeqWrap", dict(StreamDef="<<1,1>>", Mod="16", IsnSet="0..15", AllowWrap="TRUE", MaxDup="0"),
                               "ReleasedAllAtQuiescence")]:
        r = tlc.run("Reasm", dict(BASE, **upd), invariants=INV, view="View", timeout=200)
        chk.tlc(name + " (expected counterexample)", r, expect_ok=False)
        chk.extra.setdefault("kf_model", {})[name] = dict(violates=r.violated, expected=expect)
        if r.violated != expect:
            raise Exception(f"model: {name} should violate {expect}, TLC says {r.violated}")
    # 2b. documented deviation outside the property: a retransmission that starts inside a captured segment (exact duplicates are what C05 claims)
    dv = {}
    for inv in ("ReleasedAllAtQuiescence", "ReleasedIsPrefix"):
        r = tlc.run("Reasm", dict(BASE, AllowOverlap="TRUE", MaxHeld="0"), invariants=[inv], view="View", timeout=200)
        chk.tlc(f"overlapping retransmission: the direction stalls / a record is handed on twice (documented deviation, expected counterexample to {inv})", r, expect_ok=False)
        dv[inv] = r.violated
    chk.extra["documented_deviation_overlapping_retransmission"] = dv
    # 3. behaviours of the KF-disabled model -> real TLS connections
    jobs, nmid = [], 0
    streams = [(1, 2), (2, 1, 1)] if quick else [(1, 2), (2, 1, 1), (1, 1, 2, 1), (3, 1), (1, 3, 2)]
    per = 60 if quick else 900
    for st in streams:
        for consts in (dict(MaxHeld="2", MaxDup="1"), dict(MaxHeld="1", MaxDup="2", MaxSeg="4"),
                       dict(MaxHeld="1", MaxDup="0", Mod="40", IsnSet="0..39")):
            behs = gen_behaviours(chk, st, consts, per, seed=chk.seed)
            for i, b in enumerate(behs):
                b["mod"] = int(consts.get("Mod", 0))
                kind = KINDS[(i + len(jobs)) % len(KINDS)]
                fl = "hs" if (len(st) == 3 and kind[0] != R.TLS13 and i % 4 == 0) else "app"
                if len(st) == 3 and kind[0] != R.TLS13 and i % 4 == 1:
                    fl = "c2"
                kfs = sorted({h["kf"] for h in b["hist"]} - {"ok", "midgap"})
                sc = scenario(b, st, kind, rng.randrange(1 << 30), fl)
                if sc is None:
                    chk.extra["midgap_behaviours_skipped_bytes_do_not_overshoot"] = chk.extra.get("midgap_behaviours_skipped_bytes_do_not_overshoot", 0) + 1
                    continue
                nmid += any(h["kf"] == "midgap" for h in b["hist"])
                jobs.append((sc, kfs))
    # 3b. the very first data of a connection: the ClientHello record in pieces, held / reordered / duplicated (single-record stream)
    for consts in (dict(MaxHeld="2", MaxDup="1", MaxSeg="3"), dict(MaxHeld="1", MaxDup="0", MaxSeg="2", Mod="40", IsnSet="0..39")):
        behs = gen_behaviours(chk, (3,), consts, 40 if quick else 400, seed=chk.seed + 2)
        for i, b in enumerate(behs[: 60 if quick else 1500]):
            b["mod"] = int(consts.get("Mod", 0))
            kfs = sorted({h["kf"] for h in b["hist"]} - {"ok", "midgap"})
            if kfs:
                continue
            sc = scenario(b, (3,), KINDS[i % len(KINDS)], rng.randrange(1 << 30), "ch")
            if sc is not None:
                nmid += any(h["kf"] == "midgap" for h in b["hist"])
                jobs.append((sc, kfs))
    # 4. known-finding witnesses (KF-enabled model) are replayed too: they must be attributed, never silently pass as ok
    for st, consts in (((1, 2), dict(MaxHeld="1", MaxDup="0", AllowGap="TRUE")),
                       ((1, 1), dict(MaxHeld="0", MaxDup="0", AllowWrap="TRUE", Mod="16", IsnSet="4..15"))):
        behs = [b for b in gen_behaviours(chk, st, consts, 40 if quick else 300, seed=chk.seed + 1)
                if any(h["kf"] != "ok" for h in b["hist"])]
        for i, b in enumerate(behs[: 12 if quick else 120]):
            b["mod"] = int(consts.get("Mod", 0))
            kfs = sorted({h["kf"] for h in b["hist"]} - {"ok", "midgap"})
            sc = scenario(b, st, KINDS[i % len(KINDS)], rng.randrange(1 << 30))
            if sc is not None and kfs:
                jobs.append((sc, kfs))
    chk.extra["midgap_behaviours_replayed"] = nmid
    # 4b. bulk and long connections (the scaled model says "for every stream"; sizes the cells cannot reach are concretized directly):
    #     16 KiB records cut at MSS size with segments spanning record boundaries (tens of kilobytes pending between two boundaries that
    #     coincide with a segment end), and a stream of > 1500 one-byte segments with an exact duplicate of an early segment near the end
    from harness.tlsrun import build_conn
    from wire.capture import segment as _segment
    for i in range(4 if quick else 40):
        ver, suite = KINDS[(i * 3) % len(KINDS)]
        cd = dict(ver=ver, suite=suite, seed=rng.randrange(1 << 30), shape={}, flow=dict(ipv=rng.choice([4, 6])),
                  app=[["c", 100], ["s", 16384], ["s", 16384], ["s", rng.choice([16384, 9000])], ["c", 50], ["s", 16384], ["s", 777]],
                  cuts={"c": "flight", "s": "flight"}, mss=rng.choice([1448, 1200, 536, 1460]))
        cd["sched_free"] = True
        jobs.append((dict(conns=[cd]), []))
    for i in range(2 if quick else 12):
        ver, suite = KINDS[(i * 5 + 1) % len(KINDS)]
        cd = dict(ver=ver, suite=suite, seed=rng.randrange(1 << 30), shape={}, app=[["c", 30], ["s", 1400], ["s", 600], ["c", 10]])
        c0 = build_conn(cd)
        cd["cuts"] = {"c": "flight", "s": list(range(1, len(c0.stream("s"))))}           # the server's stream byte by byte
        n = len(_segment(c0, 0, cuts=cd["cuts"]))
        first_s = next(k for k, sg in enumerate(_segment(c0, 0, cuts=cd["cuts"])) if sg.d == "s")
        cd["perturb"] = [("dup", first_s + rng.randint(5, 40), n - rng.randint(20, 200))]
        cd["sched_free"] = True
        jobs.append((dict(conns=[cd]), []))
    results = pool_map(_replay_one, jobs)
    traces = []
    for r in results:
        if "machinery" in r:
            raise Exception("replay failed in the harness: " + r["machinery"])
        chk.evaluations += 1
        sch = r["sc"]["conns"][0].get("sched") or dict(cells=["bulk", r["sc"]["conns"][0].get("mss"), r["sc"]["conns"][0]["seed"]], hist=r["sc"]["conns"][0].get("perturb") or [])
        chk.distinct.add(json.dumps([sch["cells"], sch["hist"]]))
        if len(chk.samples) < 4:
            chk.sample(dict(stream_cells=sch["cells"], schedule=sch["hist"], version=R.VNAME[r["sc"]["conns"][0]["ver"]],
                            suite=hex(r["sc"]["conns"][0]["suite"]), ok=r["ok"]))
        if not r["ok"]:
            kf = None
            if "gap" in r["kf"]:
                kf = "KF_GapAccept"
            elif "wrap" in r["kf"]:
                kf = "KF_SeqWrap"
            if kf and r["as_model"] is False:
                kf = None
                r["why"] += " -- and the records were NOT handed on in the order the model predicts for the known finding"
            chk.violation(r["why"], dict(scenario=r["sc"], why=r["why"], kf_steps=r["kf"]), kf_key=kf)
        if r["events"] and len(r["events"]) <= 400:       # (the byte-by-byte streams of 4b are judged end to end only: TraceReasm's Covered is recursive)
            traces.append(dict(framing=r["framing"], events=r["events"], kf=bool(r["kf"])))
    # 5. trace validation of the hook events against the contract
    from harness.tracecheck import validate_reasm
    validate_reasm(chk, traces)
    chk.rule = ("behaviours = TLC -simulate runs of Reasm (cut sets x hold/release x duplicates x ISN/wrap position) mapped onto "
                "a server flight of real TLS connections (8 cipher-state kinds); distinct = distinct (stream, schedule) pairs; "
                "all are non-trivial (every schedule delivers >= 2 records over >= 1 segments)")
    chk.assumptions += ["reordering/duplication acts within one direction (causal environment, DESIGN 6-C05)",
                        "reference TLS implementation in /verif/wire is correct (pinned by agreement with the unchanged tree on all suites)"]


def replay(chk, path):
    obj = json.load(open(path))
    r = _replay_one((obj["scenario"], obj.get("kf_steps", [])))
    print(json.dumps(dict(ok=r["ok"], why=r["why"]), indent=1))
    return 0 if r["ok"] else 1
