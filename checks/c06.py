"""C06 -- the output is always a well-formed pcapng of well-formed, reassemblable packets.
Spec: spec/TcpOut.tla (OutputBuilder arithmetic, implementation-shaped) with contract invariants HandshakeFirst,
GapFree, AcksConsistent, RecordSplit.  Conformance: TLC-emitted record sequences [d, n, k] are realised as TLS
connections whose application records have n plaintext bytes and are carried by k segments; the output file of the
working tree is parsed by the strict observer (file grammar, frame lengths, checksums, reassembly) and its packet
lists are validated in TLC against the contract (TraceTcpOut.tla).  Inputs also include undecryptable, partly
decryptable, non-TLS TCP and non-QUIC UDP captures and option combinations (shared generators)."""
import json
import random

from harness import tlc
from harness.core import pool_map
from harness.outcheck import out_trace, validate_out
from harness.tlsrun import run_tls, build_conn
from wire import tlsref as R
from wire.capture import record_spans

INV = ["HandshakeFirst", "GapFree", "AcksConsistent", "RecordSplit", "SilentWhenEmpty", "HandshakeTime"]
KINDS = [(R.TLS13, 0x1301), (R.TLS12, 0xC02F), (R.TLS12, 0x003C), (R.TLS10, 0x002F), (R.TLS10, 0x0005), (R.SSL30, 0x000A),
         (R.TLS12, 0xCCA8), (R.TLS11, 0x0035)]


def scenario(recs, kind, seed, ipv, opts=()):
    ver, suite = kind
    cd = dict(ver=ver, suite=suite, seed=seed, shape={}, app=[[r["d"], r["n"]] for r in recs], flow=dict(ipv=ipv))
    c = build_conn(cd)
    cuts = {"c": set(), "s": set()}
    apps = [r for r in c.records if r.kind == "APP"]
    for rec, spec in zip(apps, recs):
        s, e = [(s, e) for s, e, r in record_spans(c, rec.d) if r is rec][0]
        cuts[rec.d] |= {s, e} | {s + (e - s) * j // spec["k"] for j in range(1, spec["k"])}
    for d in "cs":
        cuts[d] |= {s for s, _, _ in record_spans(c, d)}
    cd["cuts"] = {d: sorted(v) for d, v in cuts.items()}
    # every third capture also holds what real captures hold besides the connection (wire/zoo.py: ARP, ICMP, fragments, VLAN tags,
    # control segments, other transports, runts and truncated frames)
    # every fifth run finds a longer file of an earlier export at its output path
    return dict(conns=[cd], opts=list(opts), duplex=(seed if seed % 2 else 0), zoo=(seed if seed % 3 == 0 else 0), stale_out=(seed % 5 == 0))


def _one(sc):
    from harness import runner as _rn
    keep = _rn.RUN_LIMIT
    if sc.get("run_limit"):
        _rn.RUN_LIMIT = sc["run_limit"]
    try:
        cap, conns, flows, res, obs, o = run_tls(sc, trace=False)
    except Exception:
        import traceback
        return dict(machinery=traceback.format_exc()[-1500:])
    finally:
        _rn.RUN_LIMIT = keep
    tr = out_trace(cap, conns, flows, o, sc.get("opts", ())) if o is not None and not sc.get("unclaimed") else None
    c = conns[0]
    got = obs["conns"][0] if obs["conns"] else dict(c=b"", s=b"")
    return dict(sc=sc, crashed=obs["crashed"], exc=obs["exc"], problems=obs["problems"], traces=tr,
                same=all(got[d] == c.truth(d) for d in "cs"))


def _quic_wf(job):
    from harness.quicrun import run_quic, observed_dgrams
    b, seed, params, opts = job
    try:
        c, payload, fl, cap, res = run_quic(b, seed, params, opts=opts)
    except Exception:
        import traceback
        return dict(machinery=traceback.format_exc()[-1500:])
    bad = []
    if res.crashed or res.out is None:
        bad.append("run aborted: " + (res.exc or "no output").strip().splitlines()[-1])
    else:
        _got, probs = observed_dgrams(res, fl, opts)
        bad += ["output not well-formed: " + p_ for p_ in probs[:2]]
    return dict(b=b, seed=seed, params=params, opts=opts, bad=bad)


def _sample(job):
    import os
    from harness import runner
    from observe.pcapng import Observation
    f, kl, opts = job
    res = runner.run_inproc(open(f, "rb").read(), open(kl).read() if kl else None, opts=opts)
    bad = ""
    if res.crashed:
        bad = "run aborted: " + res.exc.strip().splitlines()[-1]
    elif res.out is None:
        bad = "" if (kl is None and res.exit is not None) else "no output file"
    else:
        o = Observation(res.out)
        if o.problems:
            bad = "output not well-formed: " + o.problems[0]
    return dict(file=os.path.relpath(f, runner.REPO), opts=opts, keys=("own" if kl else "none"), bad=bad)


def run(chk):
    quick = chk.tier == "quick"
    rng = random.Random(chk.seed)
    r = tlc.run("TcpOut", dict(MaxLen="8" if quick else "12", MaxK="4" if quick else "5", MaxRec="3", EmitOn="FALSE"),
                invariants=INV, timeout=300 if quick else 1500, coverage=True)
    chk.tlc("TcpOut exhaustive", r)
    r = tlc.run("TcpOut", dict(MaxLen="12", MaxK="5", MaxRec="4", EmitOn="TRUE"), invariants=["Emitter"],
                simulate=(40 if quick else 500, 6), workers=1, seed=chk.seed, timeout=300)
    chk.tlc("TcpOut generate", r)
    seen, jobs = set(), []
    printed = list(r.printed)
    rng.shuffle(printed)
    for b in printed:
        if len(jobs) >= (1500 if quick else 20000):
            break
        k = json.dumps(b["recs"])
        if k in seen:
            continue
        seen.add(k)
        jobs.append(scenario(b["recs"], KINDS[len(jobs) % len(KINDS)], rng.randrange(1 << 30), rng.choice([4, 6]),
                             opts=rng.choice([(), (), ("-m",), ("-m", "443:9443"), ("-a",)])))
    # reordered / duplicated delivery (Reasm.tla schedules): a record whose carriers arrive around another record's packet is still re-split
    # into at most as many segments as packets carried it
    from checks import c05
    for st in [(1, 2), (2, 1, 1), (2, 1)]:
        bl = c05.gen_behaviours(chk, st, dict(MaxHeld="2", MaxDup="1"), 20 if quick else 300, seed=chk.seed)
        rng.shuffle(bl)
        for i, b in enumerate(bl[: 40 if quick else 800]):
            sc = c05.scenario(b, st, c05.KINDS[i % len(c05.KINDS)], rng.randrange(1 << 30))
            if sc is not None:
                sc["opts"] = []
                jobs.append(sc)
    # inputs outside what C01 claims (TLS 1.3 KeyUpdate, HelloRetryRequest, renegotiation, data after an alert): whatever is exported for
    # them, the file must be well-formed and the run must not abort ("whatever the input"); their content is not judged here
    for i in range(60 if quick else 1200):
        ver, suite = KINDS[i % len(KINDS)]
        cd = dict(ver=ver, suite=suite, seed=rng.randrange(1 << 30), shape={}, flow=dict(ipv=rng.choice([4, 6])),
                  app=[[rng.choice("cs"), rng.choice([0, 1, 40, 700])] for _ in range(rng.randint(2, 6))], mss=rng.choice([None, 100, 1460]))
        if ver == R.TLS13:
            cd["shape"]["hrr"] = rng.random() < 0.4
            cd["ku_at"] = {str(rng.randrange(len(cd["app"]) + 1)): [rng.choice("cs")] + (["c"] if rng.random() < 0.3 else [])}
        else:
            cd["reneg_at"] = rng.randrange(len(cd["app"]))
        if rng.random() < 0.4:
            cd["alert_at"] = {str(rng.randrange(len(cd["app"]))): [rng.choice("cs"), rng.choice([1, 2])]}
        jobs.append(dict(conns=[cd], opts=list(rng.choice([(), ("-a",), ("-m",)])), unclaimed=True, zoo=(cd["seed"] if i % 4 == 0 else 0)))
    if not quick:
        # a conversation of more than 2^16 output packets (every 16-bit field of the generated packets has wrapped): 33 500 one-byte records of the server
        # in an IPv4 connection; judged for abort-freedom, well-formedness and content (about two minutes; thorough tier only)
        for ipv in (4, 6):
            jobs.append(dict(conns=[dict(ver=R.TLS12, suite=0xC02F, seed=rng.randrange(1 << 30), shape={}, flow=dict(ipv=ipv),
                                         app=[["c", 10]] + [["s", 1]] * 33500 + [["c", 3]], mss=None)], opts=[], unclaimed=True, run_limit=1500, big=True))
    results = pool_map(_one, jobs)
    traces = []
    for res in results:
        if "machinery" in res:
            raise Exception("replay failed in the harness: " + res["machinery"])
        chk.evaluations += 1
        recs = [(a[0], a[1]) for a in res["sc"]["conns"][0]["app"]]
        chk.distinct.add(json.dumps([res["sc"]["conns"][0].get("cuts"), recs, res["sc"]["conns"][0].get("ku_at"), res["sc"]["conns"][0].get("reneg_at"),
                                     (res["sc"]["conns"][0].get("sched") or {}).get("hist")]))
        chk.sample(dict(records=[dict(d=d, n=n) for d, n in recs], opts=res["sc"]["opts"]), limit=3)
        if res["crashed"]:
            chk.violation("run aborted: " + res["exc"].strip().splitlines()[-1], dict(scenario=res["sc"]))
        elif res["problems"]:
            chk.violation("output not well-formed: " + res["problems"][0], dict(scenario=res["sc"], problems=res["problems"]))
        elif res["sc"].get("big") and not res["same"]:
            chk.violation("a conversation of more than 2^16 output packets is not exported exactly", dict(scenario=dict(res["sc"], conns="33 500 one-byte server records")))
        elif "-a" not in res["sc"]["opts"] and not res["sc"].get("unclaimed"):
            for t in res["traces"] or []:
                t["_sc"] = res["sc"]
                traces.append(t)
    validate_out(chk, traces)
    # QUIC: behaviours of Quic.tla (all frame shapes incl. FIN-only STREAM frames and post-handshake CRYPTO, Retry, 0-RTT, key updates, stray
    # datagrams incl. random runts on the connection's own 4-tuple) under option combinations: no abort, well-formed UDP output
    from checks import c02
    from harness.quicrun import run_quic, observed_dgrams
    qb = c02.gen(chk, dict(MaxApp="3"), 15 if quick else 200, chk.seed + 3)
    rng.shuffle(qb)
    qjobs = []
    for b in qb[: 80 if quick else 2000]:
        prm = c02.params_for(rng, quick)
        prm["own_noise"] = rng.choice([False, True, "runts"])
        qjobs.append((b, rng.randrange(1 << 30), prm, rng.choice([[], ["-a"], ["-m"], ["-a", "-m", "443:9443"]])))
    for res in pool_map(_quic_wf, qjobs):
        if "machinery" in res:
            raise Exception("replay failed in the harness: " + res["machinery"])
        chk.evaluations += 1
        chk.distinct.add(json.dumps(["quic", res["seed"], res["opts"]]))
        for b_ in res["bad"]:
            chk.violation("QUIC: " + b_, dict(behaviour=res["b"], seed=res["seed"], params=res["params"], opts=res["opts"], why=b_))
    # "whatever the input": the repository's sample captures (TLS and QUIC, complete and incomplete) under option combinations,
    # with the right, a foreign and no key log, must all yield well-formed files
    from checks import samples
    sj = [(f, kl, list(o)) for f, kl in samples.tls_sample_sets()[:: 3 if quick else 1] for o in ((), ("-a",), ("-m",), ("-c",))] + \
         [(f, kl, list(o)) for f, kl in samples.quic_samples() for o in ((), ("-a",), ("-m", "443:8443"), ("-g",), ("-a", "-m"))]
    others = [kl for _f, kl in samples.tls_sample_sets()[:1]]
    sj += [(f, others[0], ["-a"]) for f, _kl in samples.quic_samples()]                       # QUIC capture with a foreign key log
    sj += [(f, None, []) for f, _kl in samples.tls_sample_sets()[:: 9]]                       # no key source at all
    for res in pool_map(_sample, sj, chunksize=2):
        chk.evaluations += 1
        chk.distinct.add(("sample", res["file"], tuple(res["opts"]), res["keys"]))
        if res["bad"]:
            chk.violation(f"sample {res['file']} opts {res['opts']} keys={res['keys']}: {res['bad']}", dict(sample=res["file"], opts=res["opts"], why=res["bad"]))
    chk.extra["sample_runs"] = len(sj)
    chk.rule = ("record sequences [d, n, k] emitted by TLC (-simulate of TcpOut, n in 0..12, k in 1..5, <= 4 records, any direction "
                "order) realised as TLS connections over 8 cipher kinds, IPv4/IPv6, with/without -m/-a; distinct = distinct "
                "(record list, cut set); non-trivial: all (each exercises the split arithmetic and the counters)")
    chk.assumptions += ["observer (/verif/observe) implements the pcapng draft and RFC 791/8200/793/768/1071 checks correctly"]


def replay(chk, path):
    obj = json.load(open(path))
    r = _one(obj["scenario"])
    bad = r.get("crashed") or r.get("problems")
    print(json.dumps(dict(crashed=r.get("crashed"), problems=r.get("problems")), indent=1))
    return 1 if bad else 0
