"""Connection sets (TLA+ expressions) for Demux.tla"""


def conn(proto, c, s, c2=None, odcid="<<7,7,7>>", ccid="<<>>", scid="<<>>", ncid="<<>>"):
    c2 = c2 or c
    f = lambda a: "<<%d,%d>>" % a
    return ('[proto |-> "%s", c |-> %s, s |-> %s, c2 |-> %s, odcid |-> %s, ccid |-> %s, scid |-> %s, ncid |-> %s]'
            % (proto, f(c), f(s), f(c2), odcid, ccid, scid, ncid))


SETS = {
    "one quic, empty client cid": [conn("quic", (1, 40000), (2, 443), ccid="<<>>", scid="<<5,5>>")],
    "one quic, both cids empty": [conn("quic", (1, 40000), (2, 443))],
    "two quic, prefix-related client cids": [conn("quic", (1, 40000), (2, 443), odcid="<<7,1>>", ccid="<<1>>", scid="<<5>>"),
                                             conn("quic", (1, 40001), (2, 443), odcid="<<7,2>>", ccid="<<1,2>>", scid="<<6>>")],
    "two quic, same cids, different clients": [conn("quic", (1, 40000), (2, 443), odcid="<<7,1>>", ccid="<<1>>", scid="<<5>>"),
                                               conn("quic", (3, 40000), (2, 443), odcid="<<7,2>>", ccid="<<1>>", scid="<<5>>")],
    "two quic, empty cids, same client host": [conn("quic", (1, 40000), (2, 443), odcid="<<7,1>>"),
                                               conn("quic", (1, 40001), (2, 443), odcid="<<7,2>>")],
    "quic with migration and new cid + tls on same numbers": [conn("quic", (1, 40000), (2, 443), c2=(1, 40009), odcid="<<7,1>>", ccid="<<1,1>>", scid="<<5,5>>", ncid="<<6,6>>"),
                                                              conn("tls", (1, 40000), (2, 443))],
    "same client port towards two servers, tls+quic": [conn("tls", (1, 40000), (2, 443)), conn("tls", (1, 40000), (3, 443)),
                                                       conn("quic", (1, 40000), (3, 443), odcid="<<7,3>>", ccid="<<>>", scid="<<5>>")],
    "three quic: empty, one-byte and two-byte cids": [conn("quic", (1, 40000), (2, 443), odcid="<<7,1>>", ccid="<<>>", scid="<<9>>"),
                                                      conn("quic", (1, 40001), (2, 443), odcid="<<7,2>>", ccid="<<9>>", scid="<<>>"),
                                                      conn("quic", (4, 40000), (2, 443), odcid="<<7,3>>", ccid="<<9,9>>", scid="<<9,9>>")],
    "quic whose new cid extends its old cid (prefix within one side)": [conn("quic", (1, 40000), (2, 443), odcid="<<7,1>>", ccid="<<1,1>>", scid="<<5,5>>", ncid="<<5,5,6>>"),
                                                                       conn("quic", (1, 40001), (2, 443), odcid="<<7,2>>", ccid="<<2>>", scid="<<5>>")],
    "late quic (handshake before the capture start) next to quic with empty cids": [
        conn("quic", (1, 40000), (2, 443), odcid="<<7,1>>", ccid="<<>>", scid="<<5,5>>"),
        conn("quic", (3, 40001), (2, 443), odcid="<<7,2>>", ccid="<<4>>", scid="<<6,6>>"),
        conn("quic", (1, 40002), (2, 443), odcid="<<7,3>>")],
}
LATE = {"late quic (handshake before the capture start) next to quic with empty cids": "{2}"}


def consts(name, repaired=True):
    return dict(Conns="<<%s>>" % ", ".join(SETS[name]), Repaired="TRUE" if repaired else "FALSE", ServerPorts="{443, 44330}", Late=LATE.get(name, "{}"))
