"""Strict pcapng reader and frame validator / TCP reassembler used as the *observer* of TLExport's output.
Written from the pcapng draft and RFC 791/8200/793/768/1071; shares no code with tlexport, dpkt or scapy.
Every deviation is reported as a string in `problems` -- the observer never raises on malformed input."""
import struct
from collections import OrderedDict
from fractions import Fraction

from wire.l2l4 import csum16, pseudo


class Parsed:
    def __init__(self):
        self.problems = []
        self.packets = []  # dicts


def read_pcapng(data: bytes):
    """returns (list of (ts_fraction_seconds, frame bytes), problems)"""
    probs, pkts = [], []
    if len(data) < 28:
        return pkts, ["file shorter than a section header block"]
    if data[:4] != b"\x0a\x0d\x0d\x0a":
        return pkts, ["first block is not a section header block"]
    bom = data[8:12]
    if bom == b"\x4d\x3c\x2b\x1a":
        e = "<"
    elif bom == b"\x1a\x2b\x3c\x4d":
        e = ">"
    else:
        return pkts, ["bad byte-order magic"]
    pos, ifaces = 0, []
    first = True
    while pos < len(data):
        if len(data) - pos < 12:
            probs.append(f"trailing garbage of {len(data) - pos} bytes at {pos}")
            break
        btype, blen = struct.unpack_from(e + "II", data, pos)
        if blen % 4 or blen < 12 or pos + blen > len(data):
            probs.append(f"block at {pos}: bad total length {blen}")
            break
        (blen2,) = struct.unpack_from(e + "I", data, pos + blen - 4)
        if blen2 != blen:
            probs.append(f"block at {pos}: trailing length {blen2} != {blen}")
        body = data[pos + 8: pos + blen - 4]
        if first and btype != 0x0A0D0D0A:
            probs.append("first block not SHB")
        first = False
        if btype == 0x0A0D0D0A:
            if len(body) < 16:
                probs.append("short SHB")
            else:
                major, minor = struct.unpack_from(e + "HH", body, 4)
                if major != 1:
                    probs.append(f"SHB version {major}.{minor}")
            ifaces = []
        elif btype == 1:
            if len(body) < 8:
                probs.append("short IDB")
            else:
                link, _res, snap = struct.unpack_from(e + "HHI", body, 0)
                resol, tsoff = 6, 0
                o = 8
                while o + 4 <= len(body):
                    code, ln = struct.unpack_from(e + "HH", body, o)
                    val = body[o + 4: o + 4 + ln]
                    if code == 0:
                        break
                    if code == 9 and ln == 1:
                        resol = val[0]
                    if code == 14 and ln == 8:
                        (tsoff,) = struct.unpack(e + "q", val)
                    o += 4 + ln + (-ln % 4)
                ups = 2 ** (resol & 0x7F) if resol & 0x80 else 10 ** resol
                ifaces.append((link, snap, ups, tsoff))
        elif btype == 6:
            if len(body) < 20:
                probs.append(f"short EPB at {pos}")
            else:
                iid, th, tl, cap, orig = struct.unpack_from(e + "IIIII", body, 0)
                if iid >= len(ifaces):
                    probs.append(f"EPB at {pos}: interface {iid} not described")
                    ups, tsoff, link = 10 ** 6, 0, 1
                else:
                    link, snap, ups, tsoff = ifaces[iid]
                    if snap and cap > snap:
                        probs.append(f"EPB at {pos}: caplen {cap} > snaplen {snap}")
                if 20 + cap > len(body):
                    probs.append(f"EPB at {pos}: caplen {cap} exceeds block")
                    cap = max(0, len(body) - 20)
                if cap > orig:
                    probs.append(f"EPB at {pos}: caplen {cap} > origlen {orig}")
                if cap != orig:
                    probs.append(f"EPB at {pos}: truncated packet caplen {cap} origlen {orig}")
                if link != 1:
                    probs.append(f"EPB at {pos}: link type {link} is not Ethernet")
                ts = Fraction((th << 32) | tl, ups) + tsoff
                pkts.append((ts, body[20:20 + cap]))
        pos += blen
    if not any(True for _ in ifaces) and pkts:
        probs.append("packets without interface description")
    return pkts, probs


def parse_frame(frame: bytes):
    """returns (info dict or None, problems).  info: smac,dmac,ipv,src,dst,l4,sport,dport,payload,[seq,ack,flags]"""
    p = []
    if len(frame) < 14:
        return None, ["frame shorter than an Ethernet header"]
    dmac, smac, et = frame[:6], frame[6:12], struct.unpack("!H", frame[12:14])[0]
    ip = frame[14:]
    info = dict(smac=smac, dmac=dmac)
    if et == 0x0800:
        if len(ip) < 20:
            return None, ["short IPv4 header"]
        vihl, _tos, tot, _id, _frag, _ttl, proto, _ck, src, dst = struct.unpack("!BBHHHBBH4s4s", ip[:20])
        if vihl >> 4 != 4:
            p.append("ethertype IPv4 but version != 4")
        ihl = (vihl & 15) * 4
        if ihl < 20 or ihl > len(ip):
            return None, p + ["bad IHL"]
        if tot != len(ip):
            p.append(f"IPv4 total length {tot} != {len(ip)} bytes present")
        if csum16(ip[:ihl]) != 0:
            p.append("bad IPv4 header checksum")
        l4 = ip[ihl:tot] if tot <= len(ip) else ip[ihl:]
        info.update(ipv=4, src=src, dst=dst)
    elif et == 0x86DD:
        if len(ip) < 40:
            return None, ["short IPv6 header"]
        vtf, plen, proto, _hl, src, dst = struct.unpack("!IHBB16s16s", ip[:40])
        if vtf >> 28 != 6:
            p.append("ethertype IPv6 but version != 6")
        if plen != len(ip) - 40:
            p.append(f"IPv6 payload length {plen} != {len(ip) - 40} bytes present")
        l4 = ip[40:40 + plen]
        info.update(ipv=6, src=src, dst=dst)
    else:
        return None, [f"unknown ethertype {et:#06x}"]
    if proto == 6:
        if len(l4) < 20:
            return None, p + ["short TCP header"]
        sport, dport, seq, ack, off, flags, _win, ck, _urg = struct.unpack("!HHIIBBHHH", l4[:20])
        doff = (off >> 4) * 4
        if doff < 20 or doff > len(l4):
            return None, p + ["bad TCP data offset"]
        if csum16(pseudo(src, dst, 6, len(l4)) + l4) != 0:
            p.append("bad TCP checksum")
        info.update(l4="tcp", sport=sport, dport=dport, seq=seq, ack=ack, flags=flags, payload=l4[doff:])
    elif proto == 17:
        if len(l4) < 8:
            return None, p + ["short UDP header"]
        sport, dport, ulen, ck = struct.unpack("!HHHH", l4[:8])
        if ulen != len(l4):
            p.append(f"UDP length {ulen} != {len(l4)} bytes present")
        if ck == 0:
            if info["ipv"] == 6:
                p.append("UDP checksum 0 over IPv6")
        elif csum16(pseudo(src, dst, 17, len(l4)) + l4) not in (0,):
            p.append("bad UDP checksum")
        info.update(l4="udp", sport=sport, dport=dport, payload=l4[8:ulen] if ulen <= len(l4) else l4[8:])
    else:
        return None, p + [f"unknown IP protocol {proto}"]
    return info, p


def convkey(i):
    a, b = (i["src"], i["sport"]), (i["dst"], i["dport"])
    return (i["l4"], i["ipv"]) + ((a, b) if a <= b else (b, a))


class Observation:
    """Projection of an output file."""

    def __init__(self, data: bytes):
        self.raw = data
        pkts, self.problems = read_pcapng(data)
        self.packets = []  # (ts, info)
        for n, (ts, fr) in enumerate(pkts):
            info, pr = parse_frame(fr)
            self.problems += [f"packet {n}: {x}" for x in pr]
            if info is not None:
                info["ts"] = ts
                info["n"] = n
                self.packets.append(info)
        self.tcp = OrderedDict()  # convkey -> TcpConv
        self.udp = OrderedDict()  # convkey -> list of info
        for i in self.packets:
            k = convkey(i)
            if i["l4"] == "tcp":
                self.tcp.setdefault(k, []).append(i)
            else:
                self.udp.setdefault(k, []).append(i)
        self.convs = {k: self._reassemble(k, v) for k, v in self.tcp.items()}

    def _reassemble(self, key, pkts):
        """Standard reassembler: SYN / SYN-ACK / ACK first, then gap-free, non-overlapping data with consistent
        acks.  Returns dict(client=(ip,port), server=(ip,port), streams={'c':bytes,'s':bytes}, segs=[...])."""
        pr = self.problems
        name = f"tcp conv {key[2][0].hex()}:{key[2][1]}<->{key[3][0].hex()}:{key[3][1]}"
        res = dict(client=None, server=None, streams={"c": b"", "s": b""}, segs=[], macs={})
        SYN, ACKF, PSH, FIN, RST = 2, 16, 8, 1, 4
        if len(pkts) < 3:
            pr.append(f"{name}: fewer than three packets, no handshake")
            return res
        s0, s1, s2 = pkts[:3]
        ok = (s0["flags"] == SYN and s1["flags"] == SYN | ACKF and s2["flags"] == ACKF
              and (s1["src"], s1["sport"]) == (s0["dst"], s0["dport"]) and (s2["src"], s2["sport"]) == (s0["src"], s0["sport"])
              and s1["ack"] == (s0["seq"] + 1) & 0xFFFFFFFF and s2["seq"] == (s0["seq"] + 1) & 0xFFFFFFFF
              and s2["ack"] == (s1["seq"] + 1) & 0xFFFFFFFF and not s0["payload"] and not s1["payload"] and not s2["payload"])
        if not ok:
            pr.append(f"{name}: does not open with SYN / SYN-ACK / ACK")
            return res
        cl, sv = (s0["src"], s0["sport"]), (s0["dst"], s0["dport"])
        res["client"], res["server"] = cl, sv
        res["macs"] = {"c": s0["smac"], "s": s0["dmac"]}
        res["hs_ts"] = [s0["ts"], s1["ts"], s2["ts"]]
        nxt = {"c": (s0["seq"] + 1) & 0xFFFFFFFF, "s": (s1["seq"] + 1) & 0xFFFFFFFF}
        for i in pkts[3:]:
            d = "c" if (i["src"], i["sport"]) == cl else "s"
            o = "s" if d == "c" else "c"
            if i["flags"] & (SYN | RST | FIN):
                pr.append(f"{name}: unexpected flags {i['flags']:#x} in packet {i['n']}")
                continue
            if not i["flags"] & ACKF:
                pr.append(f"{name}: data packet {i['n']} without ACK flag")
            if i["seq"] != nxt[d]:
                pr.append(f"{name}: packet {i['n']} dir {d} seq {i['seq']} != expected {nxt[d]} (gap or overlap)")
            if i["ack"] != nxt[o]:
                pr.append(f"{name}: packet {i['n']} dir {d} ack {i['ack']} != peer's next {nxt[o]}")
            exp_mac = res["macs"][d]
            if i["smac"] != exp_mac or i["dmac"] != res["macs"][o]:
                pr.append(f"{name}: packet {i['n']} MAC addresses not oriented sender->receiver")
            if i["payload"]:
                res["streams"][d] += i["payload"]
                res["segs"].append((d, i["ts"], i["payload"], i["n"]))
                nxt[d] = (nxt[d] + len(i["payload"])) & 0xFFFFFFFF
        return res

    # ---- projections ------------------------------------------------------------------
    def tcp_conv(self, cip, cport, sip, sport_out):
        for c in self.convs.values():
            if c["client"] == (cip, cport) and c["server"] == (sip, sport_out):
                return c
        return None

    def udp_dgrams(self, cip, cport, sip, sport_out, keep_empty=False):
        """list of (dir, ts, payload, smac, dmac) in file order for that flow"""
        out = []
        for i in self.packets:
            if i["l4"] != "udp":
                continue
            a, b = (i["src"], i["sport"]), (i["dst"], i["dport"])
            if (a, b) == ((cip, cport), (sip, sport_out)):
                d = "c"
            elif (a, b) == ((sip, sport_out), (cip, cport)):
                d = "s"
            else:
                continue
            if i["payload"] or keep_empty:
                out.append((d, i["ts"], i["payload"], i["smac"], i["dmac"]))
        return out
