"""Builds complete synthetic TLS connections (both endpoints) as ordered record lists with ground truth.
A connection is described by a small dict ("shape"); the abstract behaviours TLC emits are mapped onto
these shapes by harness/concretize.py."""
import random
import struct

from . import tlsref as R
from .tlsref import Suite


class Rec:
    __slots__ = ("d", "kind", "raw", "plain", "idx", "note", "prot")

    def __init__(self, d, kind, raw, plain=None, note=""):
        self.d, self.kind, self.raw, self.plain, self.note = d, kind, raw, plain, note
        self.idx = -1
        self.prot = None   # for protected records: dict(ep, seq, inner, fin13)

    def __repr__(self):
        return f"Rec({self.d},{self.kind},{len(self.raw)}B{',app=%d' % len(self.plain) if self.plain is not None else ''})"


def rnd_bytes(rng, n):
    return bytes(rng.getrandbits(8) for _ in range(n))


def filler(tag: bytes, n: int) -> bytes:
    """recognisable plaintext of exactly n bytes"""
    if n <= 0:
        return b""
    body = (tag + b"|") * (n // (len(tag) + 1) + 1)
    return body[:n]


def has_finished(data: bytes) -> bool:
    """does this sequence of whole handshake messages contain a Finished (type 20)?"""
    i = 0
    while i + 4 <= len(data):
        if data[i] == 20:
            return True
        i += 4 + int.from_bytes(data[i + 1:i + 4], "big")
    return False


def hs_side(hs_in_log, d):
    """is the handshake traffic secret of side d in the key log?  hs_in_log: True / False / 'both' / 'none' / 'c' / 's'"""
    return hs_in_log in (True, "both", d)


HRR_RANDOM = bytes.fromhex("cf21ad74e59a6111be1d8c021e65b891c2a211167abb8c5e079e09e2c8a8339c")


class TlsConn:
    """shape keys (all optional):
      abbreviated(bool) sid_len(0..32) ext('none'|'noblock'|'empty'|'etm'|'unrelated'|'sv_first')
      group('permsg'|'flight'|'pairs')  hs_in_log(bool,1.3)  pad13(int)  tickets(bool)  ccs13(bool)
      cert_pattern(bytes)  sh_noblock_coalesced(bool)  compression(int)  hello_ver(int) rec_ver_ch(int)
      alert_end('none'|'warning'|'fatal')  extra_pad_blocks(int)
    """

    def __init__(self, ver: int, suite: Suite, seed=0, **shape):
        self.ver, self.suite, self.shape = ver, suite, shape
        self.rng = random.Random(seed)
        g = lambda n: rnd_bytes(self.rng, n)
        self.g = g
        self.cr, self.sr = g(32), g(32)
        self.records = []
        self.app_sent = {"c": [], "s": []}
        self.etm = shape.get("ext") == "etm" and suite.mode == "CBC" and ver != R.TLS13
        self.rec_ver = R.TLS12 if ver == R.TLS13 else ver
        self.nrec = 0
        self.apsecret, self.kugen = {}, {"c": 0, "s": 0}
        def edged(b):       # shape secret_edges: secrets are arbitrary bytes -- also ones that begin / end with bytes a text routine would strip
            k = shape.get("secret_edges")
            if not k:
                return b
            e = [0x20, 0x0A, 0x0D, 0x09, 0x00, 0x0C, 0x0B][(k + len(b) + b[1]) % 7]
            return bytes([e]) + b[1:-1] + bytes([[0x0A, 0x20, 0x00, 0x0D, 0x09][(k + b[2]) % 5]])
        if ver == R.TLS13:
            self.secrets = {lab: edged(g(R.HLEN[suite.prf])) for lab in R.LABELS13}
            self.keylog = R.keylog_lines(ver, self.cr, secrets13={
                k: v for k, v in self.secrets.items()
                if "HANDSHAKE" not in k or hs_side(shape.get("hs_in_log", True), "c" if k.startswith("CLIENT") else "s")})
            mk = lambda lab: R.DirState(suite, ver, *R.tls13_traffic_keys(suite, self.secrets[lab]), None, rnd=g)
            self.hs = {"c": mk("CLIENT_HANDSHAKE_TRAFFIC_SECRET"), "s": mk("SERVER_HANDSHAKE_TRAFFIC_SECRET")}
            self.ap = {"c": mk("CLIENT_TRAFFIC_SECRET_0"), "s": mk("SERVER_TRAFFIC_SECRET_0")}
            self.cur = dict(self.hs)
        else:
            self.ms = edged(g(48))
            if shape.get("ms_hex"):              # a resumed session: same master secret as an earlier connection, fresh randoms
                self.ms = bytes.fromhex(shape["ms_hex"])
            self.keylog = R.keylog_lines(ver, self.cr, ms=self.ms)
            kb = R.key_block(suite, ver, self.ms, self.cr, self.sr)
            self.kb = kb
            self.cur = {"c": R.DirState(suite, ver, kb["ckey"], kb["civ"], kb["cmac"], self.etm, rnd=g),
                        "s": R.DirState(suite, ver, kb["skey"], kb["siv"], kb["smac"], self.etm, rnd=g)}
        if shape.get("compression") == 1 and ver != R.TLS13:      # DEFLATE negotiated: every protected record is compressed first
            import zlib
            for d in "cs":
                self.cur[d].comp = zlib.compressobj()
        self._handshake()

    # ---------------------------------------------------------------- plumbing
    def _add(self, d, kind, raw, plain=None, note=""):
        r = Rec(d, kind, raw, plain, note)
        r.idx = len(self.records)
        self.records.append(r)
        return r

    def _plain_hs(self, d, kind, msgs, ver=None):
        """one plaintext handshake record carrying the given messages"""
        body = b"".join(msgs)
        if kind == "SH" and ver is None:
            ver = self.shape.get("rec_ver_sh")          # the record-layer version of a ServerHello record need not be the negotiated one (0x0301 echoes are common)
        v = ver if ver is not None else self.rec_ver
        cut = self.shape.get("ch_frag")
        if kind == "CH" and cut and len(body) > 8:      # a large ClientHello (post-quantum key share) fragmented over two records (RFC 8446 5.1)
            cut = cut if 4 < cut < len(body) else len(body) // 2
            self._add(d, kind, R.record(22, v, body[:cut]))
            return self._add(d, "HSc", R.record(22, v, body[cut:]))
        return self._add(d, kind, R.record(22, v, body))

    def hello_request(self):
        """TLS <= 1.2: the server sends an (encrypted) HelloRequest in the application phase; the client ignores it (RFC 5246 7.4.1.1). The record
        consumes cipher state of the server direction like any other record."""
        return self._enc("s", 22, R.hs_msg(0, b""), "HREQ")

    def _group(self, d, msgs, kinds):
        """emit plaintext handshake messages grouped into records according to shape['group']"""
        g = self.shape.get("group", "permsg")
        if g == "flight":
            chunks = [list(range(len(msgs)))]
        elif g == "pairs":
            chunks = [list(range(i, min(i + 2, len(msgs)))) for i in range(0, len(msgs), 2)]
        else:
            chunks = [[i] for i in range(len(msgs))]
        for ch in chunks:
            self._plain_hs(d, kinds[ch[0]], [msgs[i] for i in ch])

    def _enc(self, d, ctype, data, kind, plain=None, pad13=0):
        st = self.cur[d]
        seq = st.seq
        ep = None if self.ver != R.TLS13 else ("hs" if st is self.hs[d] else "app")
        octype, body = st.protect(ctype, data, rec_ver=self.rec_ver, pad13=pad13,
                                  extra_pad_blocks=self.shape.get("extra_pad_blocks", 0) if ctype == 23 else 0)
        r = self._add(d, kind, R.record(octype, self.rec_ver, body), plain)
        inner = data + bytes([ctype]) + b"\x00" * pad13 if self.ver == R.TLS13 else data
        r.prot = dict(ep=ep, seq=seq, inner=inner, fin13=bool(self.ver == R.TLS13 and ctype == 22 and has_finished(data)))
        return r

    # ---------------------------------------------------------------- handshake scripts
    def _exts(self, who):
        e = self.shape.get("ext", "none" if self.ver in (R.SSL30, R.TLS10) else "empty")
        if self.ver == R.TLS13:
            sv = R.EXT_SV13_CH if who == "c" else R.EXT_SV13_SH
            ks = R.keyshare_sh(self.g(32))
            if who == "c":
                return dict(exts=R.EXT_RENEG + sv + R.ext(51, struct.pack("!H", 36) + ks[4:]))
            if e == "sv_first":
                return dict(exts=sv + ks)
            return dict(exts=ks + sv)
        if e in ("none", "noblock"):
            return dict(no_ext_block=True)
        if e == "empty":
            return dict(exts=b"")
        if e == "etm":
            return dict(exts=(R.EXT_RENEG + R.EXT_ETM) if self.etm else R.EXT_RENEG)
        return dict(exts=R.EXT_RENEG + R.EXT_EMS + R.ext(11, b"\x01\x00") + R.ext(35, b""))

    def _handshake(self):
        sh, ver, s, g = self.shape, self.ver, self.suite, self.g
        n = sh.get("sid_len", 32)
        echo = bool(sh.get("abbreviated")) or ver == R.TLS13
        csid = g(n) if echo else b""          # a client offers a session id only when resuming / in 1.3 compat mode
        ssid = csid if echo else g(n)
        offered = sh.get("offered") or [0x00FF, s.code, 0x002F, 0x0035]
        ch = R.client_hello(ver, self.cr, csid, offered, **self._exts("c"))
        self._plain_hs("c", "CH", [ch], ver=sh.get("rec_ver_ch", R.TLS10 if ver >= R.TLS10 else R.SSL30))
        shm = R.server_hello(ver, self.sr, ssid, sh.get("sh_suite_override", s.code), hello_ver=sh.get("hello_ver"),
                             compression=sh.get("compression", 0), **self._exts("s"))
        if ver == R.TLS13:
            if sh.get("hrr"):           # HelloRetryRequest (RFC 8446 4.1.4): a ServerHello with the fixed random, then a second ClientHello
                hrr = R.server_hello(ver, HRR_RANDOM, ssid, s.code, exts=R.EXT_SV13_SH + R.ext(51, struct.pack("!H", 0x0017)))
                self._plain_hs("s", "HRR", [hrr])
                if sh.get("ccs13", True):
                    self._add("s", "CCS", R.record(20, self.rec_ver, b"\x01"))
                    self._add("c", "CCS", R.record(20, self.rec_ver, b"\x01"))
                self._plain_hs("c", "CH2", [ch], ver=R.TLS12)
            self._plain_hs("s", "SH", [shm])
            if sh.get("ccs13", True) and not sh.get("hrr"):
                self._add("s", "CCS", R.record(20, self.rec_ver, b"\x01"))
            msgs = [R.hs_msg(8, struct.pack("!H", 0)), R.hs_msg(11, b"\x00" + (3 + 3 + 40).to_bytes(3, "big") + (40).to_bytes(3, "big") + g(40) + b"\x00\x00"),
                    R.hs_msg(15, struct.pack("!HH", 0x0804, 32) + g(32)), R.hs_msg(20, g(R.HLEN[s.prf]))]
            grp = sh.get("group", "permsg")
            chunks = [msgs] if grp == "flight" else [msgs[:2], msgs[2:]] if grp == "pairs" else [[m] for m in msgs]
            for c in chunks:
                self._enc("s", 22, b"".join(c), "HS13", pad13=sh.get("pad13_hs", 0))
            self.cur["s"] = self.ap["s"]
            self._early("s")                   # 0.5-RTT data: application data of the server before the client's Finished
            if sh.get("ccs13", True):
                self._add("c", "CCS", R.record(20, self.rec_ver, b"\x01"))
            self._enc("c", 22, R.hs_msg(20, g(R.HLEN[s.prf])), "HS13", pad13=sh.get("pad13_hs", 0))
            self.cur["c"] = self.ap["c"]
            return
        cert = sh.get("cert_pattern")
        if isinstance(cert, str):
            cert = bytes.fromhex(cert)
        cl = sh.get("cert_len", 300)
        certbody = (cert * (cl // len(cert) + 1))[:cl] if cert else g(cl)
        certm = R.hs_msg(11, (len(certbody) + 3).to_bytes(3, "big") + len(certbody).to_bytes(3, "big") + certbody)
        fin_len = 36 if ver == R.SSL30 else 12
        if sh.get("abbreviated"):
            self._plain_hs("s", "SH", [shm])
            self._add("s", "CCS", R.record(20, self.rec_ver, b"\x01"))
            self._enc("s", 22, R.hs_msg(20, g(fin_len)), "FIN")
            self._early("s")
            self._add("c", "CCS", R.record(20, self.rec_ver, b"\x01"))
            self._enc("c", 22, R.hs_msg(20, g(fin_len)), "FIN")
            return
        smsgs, kinds = [shm, certm], ["SH", "HS"]
        if "DHE" in s.name or "anon" in s.name:
            smsgs.append(R.hs_msg(12, g(70)))
            kinds.append("HS")
        smsgs.append(R.hs_msg(14, b""))
        kinds.append("HS")
        self._group("s", smsgs, kinds)
        self._plain_hs("c", "HS", [R.hs_msg(16, g(66))])
        self._add("c", "CCS", R.record(20, self.rec_ver, b"\x01"))
        self._enc("c", 22, R.hs_msg(20, g(fin_len)), "FIN")
        self._early("c")                       # False Start (RFC 7918): application data of the client before the server's Finished
        if sh.get("tickets") and ver != R.SSL30:
            self._plain_hs("s", "HS", [R.hs_msg(4, struct.pack("!IH", 7200, 48) + g(48))])
        self._add("s", "CCS", R.record(20, self.rec_ver, b"\x01"))
        self._enc("s", 22, R.hs_msg(20, g(fin_len)), "FIN")

    def _early(self, d):
        for a in self.shape.get("early_app", ()):
            self.app(d, a[0], pad13=a[1] if len(a) > 1 else None)

    # ---------------------------------------------------------------- application phase
    def app(self, d, n, pad13=None):
        tag = f"{d}{len(self.app_sent[d])}#{self.nrec}".encode()
        self.nrec += 1
        data = filler(tag, n)
        pat = self.shape.get("plain_pattern")        # application data is arbitrary bytes, not text
        if pat == "nul_edges" and n:
            k = min(n, 1 + self.nrec % 5)
            data = (b"\x00" * k + data[k:n - k] + b"\x00" * k)[:n] if n > 2 * k else b"\x00" * n
        elif pat == "all_nul":
            data = b"\x00" * n
        elif pat == "binary" and n:
            data = bytes((i * 151 + self.nrec * 7) & 0xFF for i in range(n))
        self.app_sent[d].append(data)
        return self._enc(d, 23, data, "APP", plain=data,
                         pad13=self.shape.get("pad13", 0) if pad13 is None else pad13)

    def ticket13(self):
        """post-handshake NewSessionTicket (TLS 1.3), protected under the server application key"""
        body = struct.pack("!II", 7200, 1) + b"\x08" + self.g(8) + struct.pack("!H", 32) + self.g(32) + b"\x00\x00"
        return self._enc("s", 22, R.hs_msg(4, body), "HS13")

    def key_update(self, d, request=False):
        """TLS 1.3 KeyUpdate (RFC 8446 4.6.3 / 7.2): the message travels under the current application key, everything after it in
        direction d under the next generation application_traffic_secret_N+1 = HKDF-Expand-Label(secret_N, "traffic upd", "", Hash.length)"""
        assert self.ver == R.TLS13
        r = self._enc(d, 22, R.hs_msg(24, bytes([1 if request else 0])), "KU13")
        lab = "CLIENT_TRAFFIC_SECRET_0" if d == "c" else "SERVER_TRAFFIC_SECRET_0"
        sec = self.apsecret.get(d) or self.secrets[lab]
        nxt = R.hkdf_expand_label(self.suite.prf, sec, b"traffic upd", b"", R.HLEN[self.suite.prf])
        self.apsecret[d] = nxt
        self.kugen[d] += 1
        self.cur[d] = R.DirState(self.suite, self.ver, *R.tls13_traffic_keys(self.suite, nxt), None, rnd=self.g)
        return r

    def renegotiate(self):
        """TLS <= 1.2 renegotiation (RFC 5746): a second full handshake whose every record -- ChangeCipherSpec included -- travels under the
        CURRENT cipher state; after each side's ChangeCipherSpec that side protects with keys of a new master secret / new randoms
        (a second CLIENT_RANDOM line appears in the key log)."""
        assert self.ver != R.TLS13
        g, s, ver = self.g, self.suite, self.ver
        cr2, sr2, ms2 = g(32), g(32), g(48)
        self.keylog += R.keylog_lines(ver, cr2, ms=ms2)
        kb = R.key_block(s, ver, ms2, cr2, sr2)
        new = {"c": R.DirState(s, ver, kb["ckey"], kb["civ"], kb["cmac"], self.etm, rnd=g),
               "s": R.DirState(s, ver, kb["skey"], kb["siv"], kb["smac"], self.etm, rnd=g)}
        fin_len = 36 if ver == R.SSL30 else 12
        self._enc("c", 22, R.client_hello(ver, cr2, b"", [s.code], **self._exts("c")), "RCH")
        self._enc("s", 22, R.server_hello(ver, sr2, g(32), s.code, **self._exts("s")) + R.hs_msg(11, (103).to_bytes(3, "big") + (100).to_bytes(3, "big") + g(100)) + R.hs_msg(14, b""), "RSH")
        self._enc("c", 22, R.hs_msg(16, g(66)), "RHS")
        self._enc("c", 20, b"\x01", "RCCS")
        self.cur["c"] = new["c"]
        self._enc("c", 22, R.hs_msg(20, g(fin_len)), "RFIN")
        self._enc("s", 20, b"\x01", "RCCS")
        self.cur["s"] = new["s"]
        self._enc("s", 22, R.hs_msg(20, g(fin_len)), "RFIN")

    def alert(self, d, level=1, desc=0):
        if self.cur[d] is not None:
            return self._enc(d, 21, bytes([level, desc]), "ALERT")

    def stream(self, d):
        return b"".join(r.raw for r in self.records if r.d == d)

    def truth(self, d):
        return b"".join(self.app_sent[d])
