"""Turns connections (record lists / datagram lists) into a captured packet sequence with ground truth
about provenance (which captured packets carry bytes of which record)."""
from dataclasses import dataclass, field

from .l2l4 import Flow, TcpStream, udp_frame


@dataclass
class Seg:
    conn: int
    d: str
    off: int          # byte offset in the direction's stream
    data: bytes
    emit: int         # global record index after which the sender can have sent it
    recs: tuple = ()  # indices (in conn.records) of the records it carries bytes of
    dup: bool = False


def record_spans(conn, d):
    """[(start, end, rec)] of the direction's stream"""
    out, o = [], 0
    for r in conn.records:
        if r.d == d:
            out.append((o, o + len(r.raw), r))
            o += len(r.raw)
    return out


def flight_bounds(conn, d):
    """stream offsets where a record of the other direction intervenes (mandatory segment boundaries)"""
    b, o, last_other = set(), 0, False
    for r in conn.records:
        if r.d == d:
            if last_other:
                b.add(o)
            o += len(r.raw)
            last_other = False
        else:
            last_other = True
    return b


def segment(conn, ci=0, cuts=None, mss=None):
    """Segments of one connection in causal send order.
    cuts: {'c': iterable of offsets, 's': ...} extra cut points; None => one record per segment.
          'flight' as value => only the mandatory flight boundaries (maximal coalescing)
    mss : int => additionally cut every mss bytes"""
    segs = []
    for d in "cs":
        spans = record_spans(conn, d)
        if not spans:
            continue
        total = spans[-1][1]
        cs = set(flight_bounds(conn, d))
        c = None if cuts is None else cuts.get(d)
        if c is None:
            cs |= {s for s, _, _ in spans}
        elif c != "flight":
            cs |= {x for x in c if 0 < x < total}
        cs |= {0, total}
        pts = sorted(cs)
        mss = mss or 60000          # an IP datagram holds at most 65535 bytes: coalesced flights are cut there at the latest
        if mss:
            pts2 = []
            for a, b in zip(pts, pts[1:]):
                pts2 += list(range(a, b, mss))
            pts = sorted(set(pts2) | {total})
        stream = conn.stream(d)
        for a, b in zip(pts, pts[1:]):
            rs = tuple(r.idx for s, e, r in spans if s < b and e > a)
            segs.append(Seg(ci, d, a, stream[a:b], emit=max(rs), recs=rs))
    segs.sort(key=lambda s: (s.emit, s.off))
    return segs


@dataclass
class Capture:
    ts0: int = 1_700_000_000_123_456
    step: int = 1_237            # µs between captured packets (prime-ish => varying sub-second parts)
    pkts: list = field(default_factory=list)     # (ts_us, frame)
    meta: list = field(default_factory=list)     # Seg / dict per packet

    def add(self, frame, meta=None, ts=None):
        t = self.ts0 + len(self.pkts) * self.step if ts is None else ts
        self.pkts.append((t, frame))
        self.meta.append(meta)
        return t


def tcp_capture(conns, flows, order=None, isns=None, cap=None, with_syn=False, seglists=None, **kw):
    """conns: list of TlsConn; flows: list of Flow; order: sequence of conn indices (an order-preserving
    merge) or None for round-robin by emit index; seglists: pre-computed per-connection segment lists
    (possibly perturbed by a schedule).  Returns Capture."""
    cap = cap or Capture()
    streams = [TcpStream(f, *(isns[i] if isns else (1000 + 77 * i, 5000 + 131 * i))) for i, f in enumerate(flows)]
    if seglists is None:
        seglists = [segment(c, i, **kw) for i, c in enumerate(conns)]
    if with_syn:
        for st in streams:
            for fr in st.syn_frames():
                cap.add(fr, None)
    pos = [0] * len(conns)
    if order is None:
        order = []
        work = [list(s) for s in seglists]
        while any(work):
            for i, w in enumerate(work):
                if w:
                    order.append(i)
                    w.pop(0)
    for ci in order:
        if pos[ci] >= len(seglists[ci]):
            continue
        sg = seglists[ci][pos[ci]]
        pos[ci] += 1
        st = streams[ci]
        if not sg.dup:
            st.sent[sg.d] = max(st.sent[sg.d], sg.off + len(sg.data))
        cap.add(st.frame(sg.d, sg.off, sg.data), sg)
    return cap


def udp_capture(dgrams, cap=None):
    """dgrams: list of (flow, dir, payload, meta)"""
    cap = cap or Capture()
    for flow, d, payload, meta in dgrams:
        cap.add(udp_frame(flow, d, payload), meta)
    return cap
