"""Self-tests pinning the reference implementations against published vectors (RFC 1071, RFC 5869, RFC 9001
Appendix A, RFC 9000 A.3 examples, the TLS 1.2 PRF vector).  Run by setup.sh; exit 1 on any mismatch."""
import sys

from . import quicref as Q
from . import tlsref as R
from .l2l4 import csum16

fails = []


def eq(name, got, want):
    if got != want:
        fails.append(name)
        print(f"SELFTEST FAIL {name}: got {got.hex() if isinstance(got, bytes) else got} want {want.hex() if isinstance(want, bytes) else want}")


def main():
    # RFC 1071 section 3 example
    eq("rfc1071", csum16(bytes.fromhex("0001f203f4f5f6f7")), 0x220D)
    # RFC 5869 test case 1
    prk = R.hkdf_extract("SHA256", bytes.fromhex("000102030405060708090a0b0c"), b"\x0b" * 22)
    eq("hkdf-extract", prk, bytes.fromhex("077709362c2e32df0ddc3f0dc47bba6390b6c73bb50f9c3122ec844ad7c2b3e5"))
    eq("hkdf-expand", R.hkdf_expand("SHA256", prk, bytes.fromhex("f0f1f2f3f4f5f6f7f8f9"), 42),
       bytes.fromhex("3cb25f25faacd57a90434f64d0362f2a2d2d0a90cf1a5a4c5db02d56ecc4c5bf34007208d5b887185865"))
    # RFC 9001 Appendix A.1
    k = Q.initial_keys(bytes.fromhex("8394c8f03e515708"))
    eq("quic client key", k["c"].key, bytes.fromhex("1f369613dd76d5467730efcbe3b1a22d"))
    eq("quic client iv", k["c"].iv, bytes.fromhex("fa044b2f42a3fd3b46fb255c"))
    eq("quic client hp", k["c"].hp, bytes.fromhex("9f50449e04a0e810283a1e9933adedd2"))
    eq("quic server key", k["s"].key, bytes.fromhex("cf3a5331653c364c88f0f379b6067e37"))
    eq("quic server iv", k["s"].iv, bytes.fromhex("0ac1493ca1905853b0bba03e"))
    eq("quic server hp", k["s"].hp, bytes.fromhex("c206b8d9b9f0f37644430b490eeaa314"))
    # RFC 9001 A.5 ChaCha20-Poly1305 short header packet
    ks = Q.Keys.__new__(Q.Keys)
    ks.suite, ks.h, ks.kind = 0x1303, "SHA256", "CHACHA"
    sec = bytes.fromhex("9ac312a7f877468ebe69422748ad00a15443f18203a07d6060f688f30f21632b")
    kk = Q.Keys(0x1303, sec)
    eq("chacha key", kk.key, bytes.fromhex("c6d98ff3441c3fe1b2182094f69caa2ed4b716b65488960a7a984979fb23e1c8"))
    eq("chacha iv", kk.iv, bytes.fromhex("e0459b3474bdd0e44a41c144"))
    eq("chacha hp", kk.hp, bytes.fromhex("25a282b9e82f06f21f488917a4fc8f1b73573685608597d0efcb076b0ab7a7a4"))
    eq("chacha ku", kk.next_gen().secret, bytes.fromhex("1223504755036d556342ee9361d253421a826c9ecdf3c7148684b36b714881f9"))
    eq("chacha pkt", Q.short_packet(kk, b"", 654360564, 3, b"\x01"), bytes.fromhex("4cfe4189655e5cd55c41f69080575d7999c25a5bfb"))
    # RFC 9000 A.3 example
    eq("pn decode", Q.decode_pn_rfc(0xa82f30ea, 0x9b32, 16), 0xa82f9b32)
    # varints, RFC 9000 A.1
    eq("varint8", Q.varint(151288809941952652), bytes.fromhex("c2197c5eff14e88c"))
    eq("varint4", Q.varint(494878333), bytes.fromhex("9d7f3e7d"))
    eq("varint2", Q.varint(15293), bytes.fromhex("7bbd"))
    eq("varint1-as-2", Q.varint(37, 2), bytes.fromhex("4025"))
    # TLS 1.3 traffic keys, RFC 8448 section 3 (server handshake traffic secret -> key / iv)
    s = R.all_suites()[0x1301]
    key, iv = R.tls13_traffic_keys(s, bytes.fromhex("b67b7d690cc16c4e75e54213cb2d37b4e9c912bcded9105d42befd59d391ad38"))
    eq("tls13 key", key, bytes.fromhex("3fce516009c21727d0f2e4e86ee403bc"))
    eq("tls13 iv", iv, bytes.fromhex("5d313eb2671276ee13000b30"))
    # Retry integrity tag, RFC 9001 A.4
    rp = Q.retry_packet(bytes.fromhex("8394c8f03e515708"), b"", bytes.fromhex("f067a5502a4262b5"), b"token", first=0xFF)
    eq("retry tag", rp[-16:], bytes.fromhex("04a265ba2eff4d829058fb3f0f2496ba"))
    # denotation sanity
    d = R.all_suites()
    eq("denote c0ac", (d[0xC0AC].mode, d[0xC0AC].keylen, d[0xC0AC].tag, d[0xC0AC].prf), ("CCM", 16, 16, "SHA256"))
    eq("denote c0a3", (d[0xC0A3].mode, d[0xC0A3].keylen, d[0xC0A3].tag), ("CCM", 32, 8))
    eq("denote 009d", (d[0x009D].mode, d[0x009D].keylen, d[0x009D].prf), ("GCM", 32, "SHA384"))
    eq("denote 000a", (d[0x000A].cipher, d[0x000A].keylen, d[0x000A].mac, d[0x000A].block), ("3DES", 24, "SHA", 8))
    if fails:
        print(f"wire selftest: {len(fails)} failure(s)")
        return 1
    print("wire selftest: all vectors match")
    return 0


if __name__ == "__main__":
    sys.exit(main())
