"""Independent passive TLS decryptor for captured traffic (inverse of wire.tlsref's record protection).
Used to obtain ground truth for the repository's sample captures without trusting TLExport: own pcapng reader
(observe.pcapng), own TCP reassembly by sequence number, own record framing, handshake parsing, key schedule and
record decryption.  Returns per connection and direction the application data in order."""
import struct
import warnings

from observe.pcapng import parse_frame, read_pcapng

from . import tlsref as R

with warnings.catch_warnings():
    warnings.simplefilter("ignore")
    from cryptography.hazmat.primitives.ciphers import Cipher, modes
    from cryptography.hazmat.decrepit.ciphers.algorithms import ARC4


class DecErr(Exception):
    pass


def tcp_streams(data, server_ports=(443, 44330)):
    """-> {flowkey: {'c': bytes, 's': bytes, 'client': (ip,port), 'server': (ip,port), 'order': [(dir, off, len)]}}"""
    pkts, _ = read_pcapng(data)
    flows = {}
    for ts, fr in pkts:
        info, _p = parse_frame(fr)
        if not info or info["l4"] != "tcp" or not info["payload"]:
            continue
        a, b = (info["src"], info["sport"]), (info["dst"], info["dport"])
        if a[1] in server_ports:
            srv, cli, d = a, b, "s"
        elif b[1] in server_ports:
            srv, cli, d = b, a, "c"
        else:
            continue
        f = flows.setdefault((cli, srv), {"segs": {"c": {}, "s": {}}, "client": cli, "server": srv, "first": {}})
        f["segs"][d].setdefault(info["seq"], info["payload"])
        f["first"].setdefault(d, info["seq"])
    out = {}
    for k, f in flows.items():
        st = {}
        for d in "cs":
            segs = f["segs"][d]
            if not segs:
                st[d] = b""
                continue
            base = min(segs)                      # no wrap handling needed for the samples
            buf = bytearray()
            for seq in sorted(segs):
                off = seq - base
                if off > len(buf):
                    break                         # gap: stop (prefix)
                p = segs[seq]
                if off + len(p) > len(buf):
                    buf[off:] = p[len(buf) - off:] if off < len(buf) else p
            st[d] = bytes(buf)
        out[k] = dict(c=st["c"], s=st["s"], client=f["client"], server=f["server"])
    return out


def records(stream):
    out, i = [], 0
    while i + 5 <= len(stream):
        t, v, ln = struct.unpack("!BHH", stream[i:i + 5])
        if i + 5 + ln > len(stream):
            break
        out.append((t, v, stream[i + 5:i + 5 + ln], stream[i:i + 5]))
        i += 5 + ln
    return out


def parse_keylog(text):
    kl = {}
    for line in text.replace("\r", "").split("\n"):
        p = line.split()
        if len(p) == 3 and len(p[1]) == 64:
            try:
                kl.setdefault(bytes.fromhex(p[1]), {})[p[0]] = bytes.fromhex(p[2])
            except ValueError:
                pass
    return kl


class Dir:
    def __init__(self, s, ver, key, iv, mac, etm):
        self.s, self.ver, self.key, self.iv, self.mac, self.etm, self.seq = s, ver, key, iv, mac, etm, 0
        self.chain = iv
        if s.cipher == "RC4":
            self.rc4 = Cipher(ARC4(key), mode=None).decryptor()

    def open(self, ctype, rver, body, hdr):
        s, ver = self.s, self.ver
        seq = self.seq
        self.seq += 1
        if ver == R.TLS13:
            nonce = bytes(a ^ b for a, b in zip(self.iv, b"\x00" * 4 + struct.pack("!Q", seq)))
            inner = R._aead(s, self.key).decrypt(nonce, body, hdr)
            inner = inner.rstrip(b"\x00")
            return inner[-1], inner[:-1]
        if s.aead:
            if s.mode == "POLY1305":
                nonce = bytes(a ^ b for a, b in zip(self.iv, b"\x00" * 4 + struct.pack("!Q", seq)))
                ct = body
            else:
                nonce, ct = self.iv + body[:8], body[8:]
            aad = struct.pack("!QBHH", seq, ctype, rver, len(ct) - s.tag)
            return ctype, R._aead(s, self.key).decrypt(nonce, ct, aad)
        ml = R.HLEN[s.mac]
        if s.cipher == "RC4":
            pt = self.rc4.update(body)
            return ctype, pt[:-ml]
        bs = s.block
        if self.etm:
            body = body[:-ml]
        if ver in (R.SSL30, R.TLS10):
            iv, ct = self.chain, body
        else:
            iv, ct = body[:bs], body[bs:]
        dec = Cipher(R._block_alg(s, self.key), modes.CBC(iv)).decryptor()
        pt = dec.update(ct) + dec.finalize()
        self.chain = ct[-bs:]
        pt = pt[:-(pt[-1] + 1)]
        return ctype, (pt if self.etm else pt[:-ml])


def decrypt_flow(c_stream, s_stream, keylog, interleave=None):
    """The two directions' cipher states are independent, so each direction is decrypted on its own once the hellos are
    known.  Returns dict(c=bytes, s=bytes, ver, suite) or raises DecErr."""
    cr = sr = None
    suite_code = ver = None
    etm = False
    crec, srec = records(c_stream), records(s_stream)
    for t, v, body, hdr in crec:
        if t == 22 and body[:1] == b"\x01":
            cr = body[6:38]
            break
    for t, v, body, hdr in srec:
        if t == 22 and body[:1] == b"\x02":
            sr = body[6:38]
            hv = struct.unpack("!H", body[4:6])[0]
            sidl = body[38]
            o = 39 + sidl
            suite_code = struct.unpack("!H", body[o:o + 2])[0]
            mlen = int.from_bytes(body[1:4], "big")
            ver = hv
            eo = o + 3
            if eo + 2 <= 4 + mlen:
                el = struct.unpack("!H", body[eo:eo + 2])[0]
                e, end = eo + 2, eo + 2 + el
                while e + 4 <= end:
                    et, eln = struct.unpack("!HH", body[e:e + 4])
                    ev = body[e + 4:e + 4 + eln]
                    if et == 43 and ev == b"\x03\x04":
                        ver = R.TLS13
                    if et == 22:
                        etm = True
                    e += 4 + eln
            break
    if cr is None or sr is None:
        raise DecErr("no hellos")
    s = R.all_suites().get(suite_code)
    if s is None:
        raise DecErr(f"suite {suite_code:04x} unknown to the reference")
    keys = keylog.get(cr)
    if not keys:
        raise DecErr("no secrets for this client random")
    out = {"c": b"", "s": b""}
    truth = {"c": [], "s": []}
    import hashlib
    h8 = lambda b: hashlib.sha256(bytes(b)).hexdigest()[:16]
    etm = etm and s.mode == "CBC"
    if ver == R.TLS13:
        for d, recs, hs_l, ap_l in (("c", crec, "CLIENT_HANDSHAKE_TRAFFIC_SECRET", "CLIENT_TRAFFIC_SECRET_0"), ("s", srec, "SERVER_HANDSHAKE_TRAFFIC_SECRET", "SERVER_TRAFFIC_SECRET_0")):
            if ap_l not in keys:
                continue
            have_hs = hs_l in keys
            st = Dir(s, ver, *R.tls13_traffic_keys(s, keys[hs_l] if have_hs else keys[ap_l]), None, False)
            in_app = not have_hs
            for t, v, body, hdr in recs:
                if t != 23:
                    continue
                seq0 = st.seq
                try:
                    it, pt = st.open(t, v, body, hdr)
                except Exception:
                    if in_app and not have_hs:
                        st.seq -= 1          # handshake records cannot be opened without the handshake secret
                        truth[d].append(dict(ct=h8(hdr + body), ep="hs", seq=0, ph="", plen=-1, app=False, fin13=False, mayFail=True, chain=""))
                        continue
                    break
                inner_full = R._aead(s, st.key).decrypt(bytes(a ^ b for a, b in zip(st.iv, b"\x00" * 4 + struct.pack("!Q", seq0))), body, hdr)
                fin = False
                if it == 22:
                    j = 0
                    while j + 4 <= len(pt):
                        fin = fin or pt[j] == 20
                        j += 4 + int.from_bytes(pt[j + 1:j + 4], "big")
                truth[d].append(dict(ct=h8(hdr + body), ep="app" if in_app else "hs", seq=seq0, ph=h8(inner_full), plen=len(inner_full),
                                     app=(it == 23), fin13=(fin and not in_app), mayFail=False, chain=""))
                if it == 22:
                    i = 0
                    while i + 4 <= len(pt):
                        if pt[i] == 20 and not in_app:
                            st = Dir(s, ver, *R.tls13_traffic_keys(s, keys[ap_l]), None, False)
                            in_app = True
                        i += 4 + int.from_bytes(pt[i + 1:i + 4], "big")
                elif it == 23:
                    out[d] += pt
    else:
        if "CLIENT_RANDOM" not in keys:
            raise DecErr("no master secret")
        kb = R.key_block(s, ver, keys["CLIENT_RANDOM"], cr, sr)
        for d, recs, k, iv, mac in (("c", crec, kb["ckey"], kb["civ"], kb["cmac"]), ("s", srec, kb["skey"], kb["siv"], kb["smac"])):
            st = Dir(s, ver, k, iv, mac, etm)
            on = False
            for t, v, body, hdr in recs:
                if t == 20:
                    on = True
                    continue
                if not on:
                    continue
                seq0, chain0 = st.seq, st.chain
                try:
                    it, pt = st.open(t, v, body, hdr)
                except Exception:
                    break
                truth[d].append(dict(ct=h8(hdr + body), ep="", seq=seq0, ph=h8(pt), plen=len(pt), app=(t == 23), fin13=False, mayFail=False,
                                     chain=h8(chain0) if (ver in (R.SSL30, R.TLS10) and s.mode == "CBC") else ""))
                if t == 23:
                    out[d] += pt
                elif t == 21:
                    break                 # data after an alert is not claimed
    return dict(c=out["c"], s=out["s"], ver=ver, suite=suite_code, truth=truth, sobj=s,
                framing={"c": [len(h) + len(b) for _t, _v, b, h in crec], "s": [len(h) + len(b) for _t, _v, b, h in srec]})
