"""Frames a real capture contains besides the connections of interest: other protocols, other encapsulations, control segments,
fragments, runts.  None of them belongs to (or may disturb) a TLS / QUIC connection of the capture: TCP / UDP-shaped members use
endpoints of their own.  `frames(flow, rng)` -> list of (name, frame bytes)."""
import struct

from .l2l4 import ACK, FIN, PSH, RST, SYN, csum16, eth_frame, ip_packet, mk_flow, tcp_frame, tcp_segment, udp_frame


def frames(flow, rng):
    cm, sm = flow.client.mac, flow.server.mac
    o4, o6 = mk_flow(200 + rng.randrange(20), ipv=4, sport=443), mk_flow(230 + rng.randrange(20), ipv=6, sport=443)
    ci, si = o4.client.ip, o4.server.ip
    out = []

    def add(name, fr):
        out.append((name, fr))
    add("arp", b"\xff" * 6 + cm + b"\x08\x06" + struct.pack("!HHBBH", 1, 0x800, 6, 4, 1) + cm + ci + bytes(6) + si)
    body = struct.pack("!BBHHH", 8, 0, 0, 1, 1) + b"ping" * 4
    add("icmp", eth_frame(cm, sm, ip_packet(ci, si, 1, body[:2] + struct.pack("!H", csum16(body)) + body[4:])))
    seg = tcp_segment(ci, si, o4.client.port, 443, 777, 888, PSH | ACK, b"A" * 64)
    for first in (True, False):          # an IPv4 datagram in two fragments
        part = seg[:40] if first else seg[40:]
        hdr = struct.pack("!BBHHHBBH4s4s", 0x45, 0, 20 + len(part), 77, (0x2000 if first else 5), 64, 6, 0, ci, si)
        add("ip4_fragment_%s" % ("first" if first else "rest"), sm + cm + b"\x08\x00" + hdr[:10] + struct.pack("!H", csum16(hdr)) + hdr[12:] + part)
    plain = tcp_frame(o4, "c", 5000, 6000, b"GET / HTTP/1.1\r\n\r\n")
    add("vlan_tagged", plain[:12] + b"\x81\x00\x00\x64" + plain[12:])
    add("qinq_tagged", plain[:12] + b"\x88\xa8\x00\x0a\x81\x00\x00\x64" + plain[12:])
    for nm, fl in (("syn", SYN), ("synack", SYN | ACK), ("pure_ack", ACK), ("fin", FIN | ACK), ("rst", RST)):
        add("tcp_" + nm, tcp_frame(flow, "c" if nm != "synack" else "s", 1, 1, b"", flags=fl))      # zero-length control segments of the flow itself
    # teardown flags that overtake data still in flight (a FIN of each side, a reset by the server): whatever the flags say, later segments of the
    # connection are still the connection's data
    add("tcp_fin_s", tcp_frame(flow, "s", 1, 1, b"", flags=FIN | ACK))
    add("tcp_rst_s", tcp_frame(flow, "s", 1, 1, b"", flags=RST | ACK))
    add("llc_stp", b"\x01\x80\xc2\x00\x00\x00" + cm + struct.pack("!H", 38) + b"\x42\x42\x03" + bytes(35))
    add("gre", eth_frame(cm, sm, ip_packet(ci, si, 47, bytes(24))))
    add("sctp", eth_frame(cm, sm, ip_packet(ci, si, 132, bytes(32))))
    c6, s6 = o6.client.ip, o6.server.ip
    seg6 = tcp_segment(c6, s6, o6.client.port, 443, 5, 6, PSH | ACK, b"B" * 32)
    ext = struct.pack("!BBHI", 6, 0, 1, 99)
    add("ip6_fragment", sm + cm + b"\x86\xdd" + struct.pack("!IHBB16s16s", 6 << 28, len(ext) + len(seg6), 44, 64, c6, s6) + ext + seg6)
    # an atomic fragment (Fragment header, offset 0, no more fragments) followed by Destination Options, then UDP
    udp6 = struct.pack("!HHHH", 40009, 50009, 8 + 12, 0) + b"hello world!"
    chain = struct.pack("!BBHI", 60, 0, 0, 7) + struct.pack("!BB", 17, 0) + b"\x01\x04\x00\x00\x00\x00" + udp6
    add("ip6_atomic_fragment_dstopts", sm + cm + b"\x86\xdd" + struct.pack("!IHBB16s16s", 6 << 28, len(chain), 44, 64, c6, s6) + chain)
    # hop-by-hop options + routing header (type 253, no segments left) + TCP data of other endpoints
    chain2 = struct.pack("!BB", 43, 0) + b"\x01\x04\x00\x00\x00\x00" + struct.pack("!BBBB", 6, 0, 253, 0) + b"\x00" * 4 + seg6
    add("ip6_hbh_routing", sm + cm + b"\x86\xdd" + struct.pack("!IHBB16s16s", 6 << 28, len(chain2), 0, 64, c6, s6) + chain2)
    for n in (0, 1, 13):
        add("runt_%d" % n, bytes(rng.getrandbits(8) for _ in range(n)))
    add("eth_header_only", sm + cm + b"\x08\x00")
    add("ip4_truncated", sm + cm + b"\x08\x00" + b"\x45\x00\x00\x28")
    add("ip6_truncated", sm + cm + b"\x86\xdd" + bytes(20))
    add("tcp_truncated", eth_frame(cm, sm, ip_packet(ci, si, 6, bytes(10))))
    add("udp_truncated", eth_frame(cm, sm, ip_packet(ci, si, 17, bytes(4))))
    add("udp_empty", udp_frame(o4, "c", b""))
    add("tcp_bad_offset", eth_frame(cm, sm, ip_packet(ci, si, 6, struct.pack("!HHIIBBHHH", 40000, 443, 1, 1, 0xF0, 0x18, 1000, 0, 0) + b"x" * 8)))
    add("ip4_bad_ihl", sm + cm + b"\x08\x00" + b"\x42" + bytes(30))
    add("unknown_ethertype", sm + cm + b"\x12\x34" + bytes(40))
    add("dns", udp_frame(mk_flow(260, sport=53), "c", bytes.fromhex("123401000001000000000000076578616d706c6503636f6d0000010001")))
    return out
