"""pcapng / legacy pcap writers written from the pcapng draft and the libpcap file format description.
Independent of dpkt and tlexport."""
import struct

SHB, IDB, NRB, ISB, EPB, DSB, CUSTOM = 0x0A0D0D0A, 1, 4, 5, 6, 0xA, 0x00000BAD
TLSK = 0x544C534B


def _pad(b: bytes) -> bytes:
    return b + b"\x00" * (-len(b) % 4)


class PcapNg:
    """blocks: list of tuples
       ('pkt', ts_units:int, frame:bytes)      ts in units of the interface resolution, *after* subtracting tsoffset
       ('dsb', text:bytes)
       ('nrb',) ('isb',) ('custom',)            unrelated blocks
    """

    def __init__(self, le=True, tsresol=None, tsoffset=None, linktype=1, snaplen=0x40000, shb_opts=False):
        self.e = "<" if le else ">"
        self.tsresol = tsresol  # None | int (raw option byte: n => 10^-n, 0x80|n => 2^-n)
        self.tsoffset = tsoffset
        self.linktype = linktype
        self.snaplen = snaplen
        self.shb_opts = shb_opts

    def block(self, btype, body):
        body = _pad(body)
        ln = 12 + len(body)
        return struct.pack(self.e + "II", btype, ln) + body + struct.pack(self.e + "I", ln)

    def opt(self, code, val):
        return struct.pack(self.e + "HH", code, len(val)) + _pad(val)

    def shb(self):
        body = struct.pack(self.e + "IHHq", 0x1A2B3C4D, 1, 0, -1)
        if self.shb_opts:
            body += self.opt(4, b"verif-wire") + self.opt(0, b"")
        return self.block(SHB, body)

    def idb(self):
        body = struct.pack(self.e + "HHI", self.linktype, 0, self.snaplen)
        opts = b""
        if self.tsresol is not None:
            opts += self.opt(9, bytes([self.tsresol]))
        if self.tsoffset is not None:
            opts += self.opt(14, struct.pack(self.e + "q", self.tsoffset))
        if opts:
            opts += self.opt(0, b"")
        return self.block(IDB, body + opts)

    def epb(self, ts_units, frame):
        return self.block(EPB, struct.pack(self.e + "IIIII", 0, ts_units >> 32, ts_units & 0xFFFFFFFF,
                                           len(frame), len(frame)) + _pad(frame))

    def spb(self, frame=None):
        """Simple Packet Block (type 3): original length + data, no interface id, NO timestamp.  Default content: an ARP-like frame
        that belongs to no connection (a reader may ignore it or not; it can never be part of an export)."""
        if frame is None:
            frame = b"\xff" * 6 + b"\x02\x00\x00\x00\x00\x09" + b"\x08\x06" + bytes(28)
        return self.block(3, struct.pack(self.e + "I", len(frame)) + _pad(frame))

    def dsb(self, text: bytes):
        return self.block(DSB, struct.pack(self.e + "II", TLSK, len(text)) + _pad(text))

    def nrb(self):
        rec = struct.pack(self.e + "HH", 1, 4 + 8) + _pad(bytes([10, 0, 0, 1]) + b"host.ex\x00")
        return self.block(NRB, rec + struct.pack(self.e + "HH", 0, 0))

    def isb(self):
        return self.block(ISB, struct.pack(self.e + "III", 0, 0, 0) + self.opt(4, struct.pack(self.e + "Q", 5)) + self.opt(0, b""))

    def custom(self):
        return self.block(CUSTOM, struct.pack(self.e + "I", 32473) + b"unrelated custom data!!!")

    def pb(self, ifc, drops, ts_units, frame):
        """obsolete Packet Block (type 2): 16-bit interface id, 16-bit drops count, then as an Enhanced Packet Block"""
        return self.block(2, struct.pack(self.e + "HHIIII", ifc, drops, ts_units >> 32, ts_units & 0xFFFFFFFF, len(frame), len(frame)) + _pad(frame))

    def build(self, blocks, pre_idb=(), second_if=None, packet_block=None):
        out = [self.shb()]
        for b in pre_idb:  # blocks between SHB and IDB: unrelated ones by name, or ('dsb', text)
            out.append(self.dsb(b[1]) if isinstance(b, tuple) else getattr(self, b)())
        out.append(self.idb())
        if second_if is not None:
            w2 = PcapNg(le=(self.e == "<"), tsresol=second_if[0], tsoffset=second_if[1], snaplen=self.snaplen)
            out.append(w2.idb())
        for b in blocks:
            k = b[0]
            if k == "pkt" and packet_block is not None:
                out.append(self.pb(0, packet_block, b[1], b[2]))
            elif k == "pkt2" and packet_block is not None:
                out.append(self.pb(1, packet_block, b[1], b[2]))
            elif k == "pkt":
                out.append(self.epb(b[1], b[2]))
            elif k == "pkt2":
                fr = b[2]
                out.append(self.block(EPB, struct.pack(self.e + "IIIII", 1, b[1] >> 32, b[1] & 0xFFFFFFFF, len(fr), len(fr)) + _pad(fr)))
            elif k == "dsb":
                out.append(self.dsb(b[1]))
            elif k == "spbpkt":                # a captured packet stored as a Simple Packet Block (no timestamp)
                out.append(self.spb(b[1]))
            else:
                out.append(getattr(self, k)())
        return b"".join(out)


def units_per_second(tsresol):
    if tsresol is None:
        return 10 ** 6
    return 2 ** (tsresol & 0x7F) if tsresol & 0x80 else 10 ** tsresol


def sll_frame():
    """a Linux cooked-capture (LINKTYPE_LINUX_SLL = 113) frame: 16-byte pseudo header + an IPv4 / UDP DNS query that belongs to no connection"""
    ip = bytes.fromhex("4500002c000100004011") + b"\x00\x00" + bytes([10, 9, 9, 1, 10, 9, 9, 2])
    udp = struct.pack("!HHHH", 53000, 53, 24, 0) + bytes.fromhex("abcd01000001000000000000") + b"\x00\x00\x01\x00"
    return struct.pack("!HHH8sH", 0, 1, 6, b"\x02\x00\x00\x00\x00\x07\x00\x00", 0x0800) + ip + udp


def pcapng_bytes(pkts, le=True, tsresol=None, tsoffset=None, dsbs=(), extra=(), pre_idb=(), shb_opts=False, second_if=None, spb=(), packet_block=None,
                 snaplen=0x40000, cooked_first=False):
    """pkts: list of (ts_us:int, frame) -- or (ts_num, ts_den_per_s ...) handled by caller.
    dsbs: list of (position, text) -- position = index in pkts before which the DSB is written (len(pkts) = end)
    extra: list of (position, kind)
    spb: indices of packets stored as Simple Packet Blocks (no timestamp)
    packet_block: None, or the drops count: every packet is stored as an obsolete Packet Block (type 2) instead of an Enhanced one"""
    # cooked_first (needs second_if): the FIRST interface is a cooked "any" pseudo-interface (another link type) that only carries one packet of
    # no connection; every packet of the capture proper was captured on the second (Ethernet) interface
    w = PcapNg(le=le, tsresol=tsresol, tsoffset=tsoffset, shb_opts=shb_opts, snaplen=snaplen, linktype=113 if cooked_first else 1)
    ups = units_per_second(tsresol)
    off = tsoffset or 0
    blocks = []
    for i, (ts_us, frame) in enumerate(pkts):
        for p, text in dsbs:
            if p == i:
                blocks.append(("dsb", text))
        for p, kind in extra:
            if p == i:
                blocks.append((kind,))
        # ts_us may be an int (µs) or a (num, den) rational of seconds
        if isinstance(ts_us, tuple):
            num, den = ts_us
            units = (num - off * den) * ups // den
        else:
            units = (ts_us - off * 10 ** 6) * ups // 10 ** 6
        if i in spb:                                   # this packet was stored as a Simple Packet Block: it has no timestamp in the file
            blocks.append(("spbpkt", frame))
            continue
        if cooked_first and i == 0:
            blocks.append(("pkt", units, sll_frame()))
        if second_if is not None and (i % 2 == 1 or cooked_first):      # every second packet was captured on a second interface with its own resolution / offset
            r2, o2 = second_if
            ups2, off2 = units_per_second(r2), (o2 or 0)
            if isinstance(ts_us, tuple):
                units2 = (ts_us[0] - off2 * ts_us[1]) * ups2 // ts_us[1]
            else:
                units2 = (ts_us - off2 * 10 ** 6) * ups2 // 10 ** 6
            blocks.append(("pkt2", units2, frame))
            continue
        blocks.append(("pkt", units, frame))
    for p, text in dsbs:
        if p >= len(pkts):
            blocks.append(("dsb", text))
    for p, kind in extra:
        if p >= len(pkts):
            blocks.append((kind,))
    return w.build(blocks, pre_idb=pre_idb, second_if=second_if, packet_block=packet_block)


def pcap_bytes(pkts, le=True, nano=False):
    e = "<" if le else ">"
    out = [struct.pack(e + "IHHiIII", 0xA1B23C4D if nano else 0xA1B2C3D4, 2, 4, 0, 0, 0x40000, 1)]
    for ts_us, frame in pkts:
        sec, us = divmod(ts_us, 10 ** 6)
        out.append(struct.pack(e + "IIII", sec, us * (1000 if nano else 1), len(frame), len(frame)) + frame)
    return b"".join(out)
