"""Ethernet / IPv4 / IPv6 / TCP / UDP frame construction, written from the RFCs (791, 8200, 793, 768,
1071).  Independent of tlexport, dpkt and scapy: struct + own checksum only."""
import struct
from dataclasses import dataclass

FIN, SYN, RST, PSH, ACK = 1, 2, 4, 8, 16


def csum16(data: bytes) -> int:
    """RFC 1071 internet checksum (one's complement of the one's-complement sum of 16-bit words)."""
    if len(data) & 1:
        data += b"\x00"
    s = 0
    for (w,) in struct.iter_unpack("!H", data):
        s += w
    while s >> 16:
        s = (s & 0xFFFF) + (s >> 16)
    return (~s) & 0xFFFF


def raw_sum(data: bytes) -> int:
    """un-folded sum of 16-bit words (used to steer sums through fold boundaries)"""
    if len(data) & 1:
        data += b"\x00"
    return sum(w for (w,) in struct.iter_unpack("!H", data))


@dataclass(frozen=True)
class Endpoint:
    mac: bytes
    ip: bytes  # 4 or 16 bytes
    port: int


@dataclass(frozen=True)
class Flow:
    client: Endpoint
    server: Endpoint

    @property
    def ipv(self):
        return 6 if len(self.client.ip) == 16 else 4

    def ends(self, d):
        """(sender, receiver) for direction d in {'c','s'}"""
        return (self.client, self.server) if d == "c" else (self.server, self.client)


def pseudo(src: bytes, dst: bytes, proto: int, length: int) -> bytes:
    if len(src) == 4:
        return src + dst + struct.pack("!BBH", 0, proto, length)
    return src + dst + struct.pack("!I3xB", length, proto)


# legitimate lower-layer variations, switched on per capture by VARIATION (a dict; set by the harness, default none):
#   tcp_opts: TCP timestamp option (12 option bytes, data offset 8)     ip6_ext: an IPv6 Destination Options header before the transport header
#   ip4_opts: an IPv4 NOP/NOP/NOP/EOL option word (IHL 6)               eth_pad: short frames padded to the 60-byte Ethernet minimum
#   no_psh: data segments carry the ACK flag only (no PSH)
#   eth_fcs: every frame carries a 4-byte trailer behind the IP datagram (captured FCS / mirror-port trailer)
#   vlan: every frame carries an IEEE 802.1Q tag (TPID 0x8100) -- a capture on a trunk port;  qinq: an 802.1ad service tag (0x88A8) around it
#   tso: the capture was taken on the sending host with TCP segmentation offload: data segments carry IPv4 total length 0 (the NIC fills it in
#        later); the IP datagram then extends to the end of the frame (no padding / trailer in such frames)
VARIATION = {}


def tcp_segment(src, dst, sport, dport, seq, ack, flags, payload=b"", window=65535, bad_sum=None, sum_override=None):
    opts = b""
    if VARIATION.get("tcp_opts"):
        opts = b"\x01\x01\x08\x0a" + struct.pack("!II", (seq * 7) & 0xFFFFFFFF, (ack * 3) & 0xFFFFFFFF)
    hdr = struct.pack("!HHIIBBHHH", sport, dport, seq & 0xFFFFFFFF, ack & 0xFFFFFFFF, (5 + len(opts) // 4) << 4, flags, window, 0, 0) + opts
    seg = hdr + payload
    c = csum16(pseudo(src, dst, 6, len(seg)) + seg)
    if bad_sum:
        c ^= bad_sum
    if sum_override is not None:
        c = sum_override
    return seg[:16] + struct.pack("!H", c) + seg[18:]


def udp_datagram(src, dst, sport, dport, payload=b"", bad_sum=None, sum_override=None):
    ln = 8 + len(payload)
    hdr = struct.pack("!HHHH", sport, dport, ln, 0)
    c = csum16(pseudo(src, dst, 17, ln) + hdr + payload)
    if c == 0:
        c = 0xFFFF  # RFC 768: an all-zero computed checksum is transmitted as all ones
    if bad_sum:
        c ^= bad_sum
    if sum_override is not None:
        c = sum_override
    return struct.pack("!HHHH", sport, dport, ln, c) + payload


def ip_packet(src, dst, proto, payload, ident=0, ttl=64):
    if len(src) == 4:
        opts = b"\x01\x01\x01\x00" if VARIATION.get("ip4_opts") else b""
        total = 20 + len(opts) + len(payload)
        if VARIATION.get("tso") and proto == 6 and len(payload) > 20 + (12 if VARIATION.get("tcp_opts") else 0):      # a data segment handed to an offloading NIC
            total = 0
        hdr = struct.pack("!BBHHHBBH4s4s", 0x45 + len(opts) // 4, 0, total, ident & 0xFFFF, 0x4000, ttl, proto, 0, src, dst) + opts
        c = csum16(hdr)
        return hdr[:10] + struct.pack("!H", c) + hdr[12:] + payload
    if VARIATION.get("ip6_ext"):
        ext = struct.pack("!BB", proto, 0) + b"\x01\x04\x00\x00\x00\x00"       # Destination Options: next header, length 0 (8 bytes), PadN
        return struct.pack("!IHBB16s16s", 6 << 28, len(ext) + len(payload), 60, ttl, src, dst) + ext + payload
    return struct.pack("!IHBB16s16s", 6 << 28, len(payload), proto, ttl, src, dst) + payload


def eth_frame(smac, dmac, ip_pkt):
    et = 0x0800 if ip_pkt[0] >> 4 == 4 else 0x86DD
    tag = b""
    if VARIATION.get("qinq"):
        tag += struct.pack("!HH", 0x88A8, 0x2000 | 300)
    if VARIATION.get("vlan") or VARIATION.get("qinq"):
        tag += struct.pack("!HH", 0x8100, 0x6000 | 100)
    fr = dmac + smac + tag + struct.pack("!H", et) + ip_pkt
    if VARIATION.get("tso"):
        return fr                            # (no padding or trailer behind a datagram whose length field is not filled in)
    if VARIATION.get("eth_pad") and len(fr) < 60:
        fr += b"\x00" * (60 - len(fr))
    if VARIATION.get("eth_fcs"):                 # the capture kept the 4-byte frame check sequence (or a mirror-port trailer) behind the IP datagram
        fr += struct.pack("!I", (len(fr) * 2654435761) & 0xFFFFFFFF)
    return fr


def tcp_frame(flow: Flow, d: str, seq: int, ack: int, payload: bytes, flags=PSH | ACK, **kw):
    s, r = flow.ends(d)
    if VARIATION.get("no_psh") and flags == PSH | ACK:
        flags = ACK                        # most mid-stream data segments carry ACK only
    seg = tcp_segment(s.ip, r.ip, s.port, r.port, seq, ack, flags, payload, **kw)
    return eth_frame(s.mac, r.mac, ip_packet(s.ip, r.ip, 6, seg))


def udp_frame(flow: Flow, d: str, payload: bytes, **kw):
    s, r = flow.ends(d)
    dg = udp_datagram(s.ip, r.ip, s.port, r.port, payload, **kw)
    return eth_frame(s.mac, r.mac, ip_packet(s.ip, r.ip, 17, dg))


def mk_flow(idx: int, ipv=4, cport=None, sport=443, chost=None, shost=None) -> Flow:
    """deterministic distinct endpoints per index"""
    chost = idx * 2 + 1 if chost is None else chost
    shost = idx * 2 + 2 if shost is None else shost
    cport = 40000 + idx if cport is None else cport
    if ipv == 4:
        cip, sip = bytes([10, 0, chost >> 8 & 255, chost & 255]), bytes([192, 168, shost >> 8 & 255, shost & 255])
    else:
        cip = bytes.fromhex("20010db8000000000000000000c1") + struct.pack("!H", chost)
        sip = bytes.fromhex("20010db80000000000000000005e") + struct.pack("!H", shost)
    cm = bytes([0x02, 0xC1, 0, 0, chost >> 8 & 255, chost & 255])
    sm = bytes([0x02, 0x5E, 0, 0, shost >> 8 & 255, shost & 255])
    return Flow(Endpoint(cm, cip, cport), Endpoint(sm, sip, sport))


class TcpStream:
    """Segments the byte streams of one TCP connection at given offsets and yields frames.
    seq numbers start at isn[d]+1 (the SYN is not captured unless asked)."""

    def __init__(self, flow: Flow, isn_c=1000, isn_s=5000):
        self.flow = flow
        self.base = {"c": (isn_c + 1) & 0xFFFFFFFF, "s": (isn_s + 1) & 0xFFFFFFFF}
        self.sent = {"c": 0, "s": 0}

    def frame(self, d, off, data, **kw):
        o = "s" if d == "c" else "c"
        return tcp_frame(self.flow, d, self.base[d] + off, self.base[o] + self.sent[o], data, **kw)

    def syn_frames(self):
        f = self.flow
        return [tcp_frame(f, "c", self.base["c"] - 1, 0, b"", SYN),
                tcp_frame(f, "s", self.base["s"] - 1, self.base["c"], b"", SYN | ACK),
                tcp_frame(f, "c", self.base["c"], self.base["s"], b"", ACK)]


def set_tcp_flags(frame: bytes, flags: int) -> bytes:
    """the same Ethernet / IP / TCP frame with other TCP flags (checksum recomputed); untagged IPv4 / IPv6 without extension headers only"""
    et = struct.unpack("!H", frame[12:14])[0]
    if et == 0x0800:
        ihl = (frame[14] & 15) * 4
        tot = struct.unpack("!H", frame[16:18])[0] or (len(frame) - 14)
        src, dst, off = frame[26:30], frame[30:34], 14 + ihl
        seg = bytearray(frame[off:14 + tot])
        tail = frame[14 + tot:]
    elif et == 0x86DD and frame[20] == 6:
        plen = struct.unpack("!H", frame[18:20])[0]
        src, dst, off = frame[22:38], frame[38:54], 54
        seg = bytearray(frame[off:off + plen])
        tail = frame[off + plen:]
    else:
        return frame
    seg[13] = flags
    seg[16:18] = b"\x00\x00"
    seg[16:18] = struct.pack("!H", csum16(pseudo(src, dst, 6, len(seg)) + bytes(seg)))
    return frame[:off] + bytes(seg) + tail
