"""Builds complete synthetic QUIC v1 connections (both endpoints) as datagram lists with ground truth."""
import random
import struct

from . import quicref as Q
from .tlsref import ext, hs_msg

LABELS = ("CLIENT_HANDSHAKE_TRAFFIC_SECRET", "SERVER_HANDSHAKE_TRAFFIC_SECRET", "CLIENT_TRAFFIC_SECRET_0",
          "SERVER_TRAFFIC_SECRET_0")


class Dgram:
    __slots__ = ("d", "payload", "stream", "crypto", "packets", "note")

    def __init__(self, d, payload, stream, crypto, packets, note=""):
        self.d, self.payload, self.stream, self.crypto, self.packets, self.note = d, payload, stream, crypto, packets, note


def filler(tag: bytes, n: int) -> bytes:
    if n <= 0:
        return b""
    return ((tag + b"|") * (n // (len(tag) + 1) + 1))[:n]


class QuicConn:
    """params (all optional): offered(list) odcid_len c_cid_len s_cid_len retry zero_rtt early_in_log
    ch_frames(int: ClientHello split in n CRYPTO frames) ch_order(list: permutation) ch_packets(1|2)
    pnlen {'c':n,'s':n}  grease_first  tp_grease(bool: send grease_quic_bit transport parameter)"""

    def __init__(self, suite, seed=0, **p):
        self.suite, self.p = suite, p
        self.rng = random.Random(seed)
        g = lambda n: bytes(self.rng.getrandbits(8) for _ in range(n))
        self.g = g
        h = {"SHA256": 32, "SHA384": 48}[Q.SUITES[suite][0]]
        self.cr = g(32)
        self.secrets = {lab: g(h) for lab in LABELS}
        if p.get("zero_rtt"):
            self.secrets["CLIENT_EARLY_TRAFFIC_SECRET"] = g(h)
        self.keylog = [f"{lab} {self.cr.hex()} {sec.hex()}" for lab, sec in self.secrets.items()
                       if lab != "CLIENT_EARLY_TRAFFIC_SECRET" or p.get("early_in_log", True)]
        self.odcid = g(p.get("odcid_len", 8))
        self.cid = {"c": g(p.get("c_cid_len", 8)), "s": g(p.get("s_cid_len", 8))}   # the SCID each side chose
        if "odcid" in p:
            self.odcid = bytes.fromhex(p["odcid"])
        if "cid_c" in p:
            self.cid["c"] = bytes.fromhex(p["cid_c"])
        if "cid_s" in p:
            self.cid["s"] = bytes.fromhex(p["cid_s"])
        self.dcid_now = {"c": self.odcid, "s": self.cid["c"]}                         # DCID each side currently sends to
        self.pn = {d: {"i": 0, "h": 0, "a": 0} for d in "cs"}
        for d, sp in (p.get("pn_start") or {}).items():      # first packet number of a space (the observer decodes relative to what it has seen:
            self.pn[d].update(sp)                            # any value below 2^32 is decodable from a 4-byte encoding)
        self.largest_seen = {d: {"i": -1, "h": -1, "a": -1} for d in "cs"}            # as the observer sees it
        self.pnlen = dict(p.get("pnlen", {"c": 2, "s": 1}))
        self.gen = {"c": 0, "s": 0}                                                   # send key generation per direction
        self.dgrams = []
        self.init = Q.initial_keys(self.odcid)
        self.hs = {"c": Q.Keys(suite, self.secrets["CLIENT_HANDSHAKE_TRAFFIC_SECRET"]),
                   "s": Q.Keys(suite, self.secrets["SERVER_HANDSHAKE_TRAFFIC_SECRET"])}
        self.app = {"c": [Q.Keys(suite, self.secrets["CLIENT_TRAFFIC_SECRET_0"])],
                    "s": [Q.Keys(suite, self.secrets["SERVER_TRAFFIC_SECRET_0"])]}
        self.early = Q.Keys(p.get("early_suite", suite), self.secrets["CLIENT_EARLY_TRAFFIC_SECRET"]) if p.get("zero_rtt") else None
        self.nstream = 0
        self.issued = {"c": [], "s": []}
        self.token = b""

    # ------------------------------------------------------------ TLS messages carried in CRYPTO frames
    def client_hello(self):
        offered = self.p.get("offered") or [self.suite, 0x1301, 0x1302]
        tp = Q.varint(0x01) + Q.varint(2) + Q.varint(10000, 2) + Q.varint(0x04) + Q.varint(4) + Q.varint(1 << 20, 4) + \
            Q.varint(0x0f) + Q.varint(len(self.cid["c"])) + self.cid["c"]
        if self.p.get("tp_grease"):
            tp += Q.varint(0x2ab2) + Q.varint(0)
        exts = ext(0, struct.pack("!HBH", 12, 0, 9) + b"localhost") + ext(43, b"\x02\x03\x04") + \
            ext(16, struct.pack("!HB", 3, 2) + b"h3") + ext(13, struct.pack("!HHH", 4, 0x0804, 0x0403)) + \
            ext(51, struct.pack("!HHH", 36, 29, 32) + self.g(32)) + ext(57, tp) + ext(21, b"\x00" * self.p.get("ch_pad", 60))
        body = b"\x03\x03" + self.cr + b"\x00" + struct.pack("!H", 2 * len(offered)) + \
            b"".join(struct.pack("!H", s) for s in offered) + b"\x01\x00" + struct.pack("!H", len(exts)) + exts
        return hs_msg(1, body)

    def server_hello(self):
        exts = ext(51, struct.pack("!HH", 29, 32) + self.g(32)) + ext(43, b"\x03\x04")
        return hs_msg(2, b"\x03\x03" + self.g(32) + b"\x00" + struct.pack("!HB", self.suite, 0) + struct.pack("!H", len(exts)) + exts)

    def server_flight(self):
        tp = Q.varint(0x00) + Q.varint(len(self.odcid)) + self.odcid
        ee = hs_msg(8, struct.pack("!H", len(ext(57, tp)) + len(ext(16, b"\x00\x03\x02h3"))) + ext(16, b"\x00\x03\x02h3") + ext(57, tp))
        cert = hs_msg(11, b"\x00" + (205).to_bytes(3, "big") + (200).to_bytes(3, "big") + self.g(200) + b"\x00\x00")
        cv = hs_msg(15, struct.pack("!HH", 0x0804, 64) + self.g(64))
        fin = hs_msg(20, self.g(32))
        return ee + cert + cv + fin

    # ------------------------------------------------------------ packets
    def _pn(self, d, sp, skip=0, pnlen=None):
        if self.largest_seen[d][sp] >= 0:       # the first packet of a space is sent at the start value (decodable without history)
            self.pn[d][sp] += skip
        n = self.pn[d][sp]
        self.pn[d][sp] += 1
        ln = pnlen or self.pnlen[d]
        # the chosen encoding must let a receiver that has seen `largest_seen` decode it (RFC 9000 17.1)
        largest = self.largest_seen[d][sp]
        while ln < 4 and Q.decode_pn_rfc(largest, n & ((1 << 8 * ln) - 1), 8 * ln) != n:
            ln += 1
        self.largest_seen[d][sp] = max(largest, n)
        return n, ln

    def pkt(self, d, level, frames: bytes, skip=0, pnlen=None, pad_to=0, gen=None, pn_override=None, **kw):
        """one protected packet; level in 'i','h','z','a'"""
        sp = {"i": "i", "h": "h", "z": "a", "a": "a"}[level]
        n, ln = self._pn(d, sp, skip, pnlen)
        if pn_override is not None:
            n = pn_override
        if len(frames) + ln < 4:
            frames += Q.f_padding(4 - ln - len(frames))
        if pad_to:
            frames += Q.f_padding(max(0, pad_to - len(frames)))
        dcid = self.dcid_now[d]
        if level == "i":
            raw = Q.long_packet(self.init[d], Q.INITIAL, dcid, self.cid[d], n, ln, frames, token=self.token if d == "c" else b"", **kw)
        elif level == "h":
            raw = Q.long_packet(self.hs[d], Q.HANDSHAKE, dcid, self.cid[d], n, ln, frames, **kw)
        elif level == "z":
            raw = Q.long_packet(self.early, Q.ZERORTT, dcid, self.cid[d], n, ln, frames, **kw)
        else:
            g = self.gen[d] if gen is None else gen
            while len(self.app[d]) <= g:
                self.app[d].append(self.app[d][-1].next_gen())
            raw = Q.short_packet(self.app[d][g], dcid, n, ln, frames, phase=g & 1, fixed=kw.get("fixed", 1), spin=kw.get("spin", 0))
        return raw, dict(level=level, pn=n, pnlen=ln, dcid=dcid, gen=self.gen[d] if gen is None else gen)

    def send(self, d, parts, note=""):
        """parts: list of (level, frames bytes, stream bytes, crypto bytes, kwargs) coalesced into one datagram"""
        payload, stream, crypto, metas = b"", b"", b"", []
        for level, frames, sdata, cdata, kw in parts:
            raw, m = self.pkt(d, level, frames, **kw)
            payload += raw
            stream += sdata
            crypto += cdata
            metas.append(m)
        dg = Dgram(d, payload, stream, crypto, metas, note)
        self.dgrams.append(dg)
        return dg

    def raw(self, d, payload, note=""):
        dg = Dgram(d, payload, b"", b"", [], note)
        self.dgrams.append(dg)
        return dg

    def sdata(self, d, n):
        tag = f"{d}{self.nstream}".encode()
        self.nstream += 1
        return filler(tag, n)

    # ------------------------------------------------------------ handshake script
    def handshake(self):
        p = self.p
        ch = self.client_hello()
        nfr = p.get("ch_frames", 1)
        cuts = [len(ch) * i // nfr for i in range(nfr + 1)]
        pieces = [(cuts[i], ch[cuts[i]:cuts[i + 1]]) for i in range(nfr)]
        order = p.get("ch_order") or list(range(nfr))
        pieces = [pieces[i] for i in order]

        def client_initials(note):
            if p.get("ch_packets", 1) == 2 and nfr >= 2:
                half = (len(pieces) + 1) // 2
                groups = [pieces[:half], pieces[half:]]
            else:
                groups = [pieces]
            for gi, grp in enumerate(groups):
                fr = b"".join(Q.f_crypto(o, dta) for o, dta in grp)
                parts = [("i", fr, b"", b"".join(dta for _, dta in grp), dict(pad_to=1100 if not p.get("zero_rtt") else 900))]
                if p.get("zero_rtt") and gi == len(groups) - 1:
                    sd = self.sdata("c", 40)
                    parts.append(("z", Q.f_stream(0, sd, fin=False), sd, b"", {}))
                self.send("c", parts, note)

        client_initials("CH")
        if p.get("retry"):
            new_scid = self.g(p.get("s_cid_len", 8))
            self.token = self.g(16)
            self.raw("s", Q.retry_packet(self.odcid, self.cid["c"], new_scid, self.token), "RETRY")
            # the client starts over: new DCID = Retry's SCID, Initial keys re-derived from it, packet numbers continue
            self.retry_scid = new_scid
            self.cid["s"] = new_scid
            self.dcid_now["c"] = new_scid
            self.init = Q.initial_keys(new_scid)
            client_initials("CH2")
        sh = self.server_hello()
        fl = self.server_flight()
        half = len(fl) // 2 if p.get("sf_split") else len(fl)
        parts = [("i", Q.f_ack(self.pn["c"]["i"] - 1) + Q.f_crypto(0, sh), b"", sh, {}),
                 ("h", Q.f_crypto(0, fl[:half]), b"", fl[:half], {})]
        if p.get("coalesce", True):
            self.send("s", parts, "SH+HS")
        else:
            self.send("s", parts[:1], "SH")
            self.send("s", parts[1:], "HS")
        if half < len(fl):
            self.send("s", [("h", Q.f_crypto(half, fl[half:]), b"", fl[half:], {})], "HS2")
        if p.get("half_rtt"):
            sd = self.sdata("s", 30)
            self.send("s", [("a", Q.f_stream(3, sd), sd, b"", {})], "0.5-RTT")
        self.dcid_now["c"] = self.cid["s"]
        fin = hs_msg(20, self.g(32))
        parts = [("i", Q.f_ack(0), b"", b"", {}), ("h", Q.f_ack(0) + Q.f_crypto(0, fin), b"", fin, {})]
        self.send("c", parts if p.get("coalesce", True) else parts[1:], "CFIN")
        self.send("s", [("a", Q.f_handshake_done() + Q.f_new_token(self.g(12)), b"", b"", {})], "DONE")
        return self
