"""Independent passive QUIC v1 decryptor for captured traffic (inverse of wire.quicref): ground truth for the repository's
QUIC sample captures without trusting TLExport.  Own pcapng reader (observe.pcapng), connection tracking by 4-tuple, header
protection removal, packet-number reconstruction (RFC 9000 A.3), AEAD opening, key updates by trial (current / next
generation, RFC 9001 6.3), frame walking (RFC 9000 19) and CRYPTO reassembly to find the client random and the negotiated suite.
Returns per connection the list of (direction, concatenated STREAM data) per captured datagram."""
import struct

from observe.pcapng import parse_frame, read_pcapng

from . import quicref as Q
from .quicref import decode_pn_rfc


class Stop(Exception):
    pass


def rd_varint(b, i):
    if i >= len(b):
        raise Stop()
    n = 1 << (b[i] >> 6)
    if i + n > len(b):
        raise Stop()
    v = b[i] & 0x3F
    for k in range(1, n):
        v = (v << 8) | b[i + k]
    return v, i + n


def walk_frames(pl):
    """-> (stream bytes in frame order, [(crypto offset, data)])"""
    i, stream, crypto = 0, b"", []
    while i < len(pl):
        t = pl[i]
        i += 1
        if t == 0x00 or t == 0x01 or t == 0x1E:
            continue
        if t in (0x02, 0x03):
            _la, i = rd_varint(pl, i)
            _d, i = rd_varint(pl, i)
            rc, i = rd_varint(pl, i)
            _f, i = rd_varint(pl, i)
            for _ in range(rc):
                _g, i = rd_varint(pl, i)
                _r, i = rd_varint(pl, i)
            if t == 0x03:
                for _ in range(3):
                    _e, i = rd_varint(pl, i)
        elif t == 0x04:
            for _ in range(3):
                _x, i = rd_varint(pl, i)
        elif t in (0x05, 0x11, 0x15):
            for _ in range(2):
                _x, i = rd_varint(pl, i)
        elif t == 0x06:
            off, i = rd_varint(pl, i)
            ln, i = rd_varint(pl, i)
            crypto.append((off, pl[i:i + ln]))
            i += ln
        elif t == 0x07:
            ln, i = rd_varint(pl, i)
            i += ln
        elif 0x08 <= t <= 0x0F:
            _sid, i = rd_varint(pl, i)
            if t & 4:
                _off, i = rd_varint(pl, i)
            if t & 2:
                ln, i = rd_varint(pl, i)
            else:
                ln = len(pl) - i
            stream += pl[i:i + ln]
            i += ln
        elif t in (0x10, 0x12, 0x13, 0x14, 0x16, 0x17, 0x19):
            _x, i = rd_varint(pl, i)
        elif t == 0x18:
            _s, i = rd_varint(pl, i)
            _r, i = rd_varint(pl, i)
            ln = pl[i]
            i += 1 + ln + 16
        elif t in (0x1A, 0x1B):
            i += 8
        elif t in (0x1C, 0x1D):
            _e, i = rd_varint(pl, i)
            if t == 0x1C:
                _f, i = rd_varint(pl, i)
            ln, i = rd_varint(pl, i)
            i += ln
        elif t in (0x30, 0x31):
            if t & 1:
                ln, i = rd_varint(pl, i)
            else:
                ln = len(pl) - i
            i += ln
        else:
            raise Stop()
    return stream, crypto


class Conn:
    def __init__(self, cli, srv, odcid):
        self.cli, self.srv = cli, srv
        self.init = Q.initial_keys(odcid)
        self.hs = self.app = None
        self.largest = {}
        self.crypto = {"c": {}, "s": {}}          # offset -> data of the Initial space
        self.cr = self.suite = None
        self.cid_len = {"c": None, "s": None}       # length of the DCID that direction d SENDS TO (learnt from long headers)
        self.out = []
        self.appgen = {"c": 0, "s": 0}
        self.early = None

    def assembled(self, d):
        buf, off = b"", 0
        for o in sorted(self.crypto[d]):
            if o > off:
                break
            data = self.crypto[d][o]
            if o + len(data) > off:
                buf += data[off - o:]
                off = o + len(data)
        return buf


def try_open(keys, hdr_wo_pn, rest, largest, short):
    """remove header protection, reconstruct the packet number, open.  rest = bytes from the pn field on."""
    if len(rest) < 20:
        return None
    mask = keys.mask(rest[4:20])
    first = hdr_wo_pn[0] ^ (mask[0] & (0x1F if short else 0x0F))
    pnlen = (first & 3) + 1
    pnb = bytes(a ^ b for a, b in zip(rest[:pnlen], mask[1:1 + pnlen]))
    pn = decode_pn_rfc(largest, int.from_bytes(pnb, "big"), 8 * pnlen)
    hdr = bytes([first]) + hdr_wo_pn[1:] + pnb
    nonce = bytes(a ^ b for a, b in zip(keys.iv, pn.to_bytes(12, "big")))
    try:
        pt = keys.aead().decrypt(nonce, rest[pnlen:], hdr)
    except Exception:
        return None
    return first, pn, pt


def decrypt_capture(data, keylog_text):
    """-> {(client addr, server addr): [(dir, stream bytes)] per captured datagram that carried stream data}"""
    kl = {}
    for line in keylog_text.replace("\r", "").split("\n"):
        p = line.split()
        if len(p) == 3:
            try:
                kl.setdefault(bytes.fromhex(p[1]), {})[p[0]] = bytes.fromhex(p[2])
            except ValueError:
                pass
    pkts, _ = read_pcapng(data)
    conns = {}
    for ts, fr in pkts:
        info, _p = parse_frame(fr)
        if not info or info["l4"] != "udp" or not info["payload"]:
            continue
        pl = info["payload"]
        a, b = (info["src"], info["sport"]), (info["dst"], info["dport"])
        c = conns.get((a, b)) or conns.get((b, a))
        if c is None:
            if not (pl[0] & 0x80) or len(pl) < 7 or struct.unpack("!I", pl[1:5])[0] != 1 or (pl[0] >> 4) & 3 != 0:
                continue                  # a connection starts with a client Initial of version 1
            dl = pl[5]
            c = conns[(a, b)] = Conn(a, b, pl[6:6 + dl])
        d = "c" if a == c.cli else "s"
        stream = b""
        i = 0
        try:
            while i < len(pl):
                if pl[i:] == bytes(len(pl) - i):
                    break
                if pl[i] & 0x80:
                    ver = struct.unpack("!I", pl[i + 1:i + 5])[0]
                    dl = pl[i + 5]
                    sl = pl[i + 6 + dl]
                    j = i + 7 + dl + sl
                    if ver == 0:
                        break
                    ptype = (pl[i] >> 4) & 3
                    c.cid_len[d] = dl
                    if ptype == 3:
                        c.init = Q.initial_keys(pl[i + 7 + dl:i + 7 + dl + sl])       # Retry: new Initial keys from its SCID
                        c.crypto = {"c": {}, "s": {}}
                        break
                    if ptype == 0:
                        tl, j = rd_varint(pl, j)
                        j += tl
                    ln, j = rd_varint(pl, j)
                    end = j + ln
                    keys = {0: c.init[d], 2: (c.hs or {}).get(d), 1: c.early}[ptype]
                    sp = (d, "i" if ptype == 0 else "h" if ptype == 2 else "a")
                    if keys is not None:
                        r = try_open(keys, pl[i:j], pl[j:end], c.largest.get(sp, -1), False)
                        if r:
                            _f, pn, pt = r
                            c.largest[sp] = max(c.largest.get(sp, -1), pn)
                            s2, cr2 = walk_frames(pt)
                            stream += s2
                            if ptype == 0:
                                for off, dta in cr2:
                                    c.crypto[d].setdefault(off, dta)
                                _learn(c, kl)
                    i = end
                else:
                    dl = c.cid_len[d]
                    if dl is None or c.app is None:
                        break
                    j = i + 1 + dl
                    sp = (d, "a")
                    for g in (c.appgen[d], c.appgen[d] + 1):
                        while len(c.app[d]) <= g:
                            c.app[d].append(c.app[d][-1].next_gen())
                        r = try_open(c.app[d][g], pl[i:j], pl[j:], c.largest.get(sp, -1), True)
                        if r and ((r[0] >> 2) & 1) == (g & 1):
                            c.appgen[d] = g
                            c.largest[sp] = max(c.largest.get(sp, -1), r[1])
                            s2, _cr = walk_frames(r[2])
                            stream += s2
                            break
                    break
        except (Stop, IndexError, struct.error):
            pass
        if stream:
            c.out.append((d, stream, ts))
    return {(c.cli, c.srv): c.out for c in conns.values()}


def _learn(c, kl):
    ch, sh = c.assembled("c"), c.assembled("s")
    if c.cr is None and len(ch) >= 38 and ch[0] == 1 and len(ch) >= 4 + int.from_bytes(ch[1:4], "big"):
        c.cr = ch[6:38]
    if c.suite is None and len(sh) >= 44 and sh[0] == 2 and len(sh) >= 4 + int.from_bytes(sh[1:4], "big"):
        sidl = sh[38]
        c.suite = struct.unpack("!H", sh[39 + sidl:41 + sidl])[0]
    if c.cr is not None and c.suite in Q.SUITES and c.hs is None:
        k = kl.get(c.cr, {})
        need = ("CLIENT_HANDSHAKE_TRAFFIC_SECRET", "SERVER_HANDSHAKE_TRAFFIC_SECRET", "CLIENT_TRAFFIC_SECRET_0", "SERVER_TRAFFIC_SECRET_0")
        if all(x in k for x in need):
            c.hs = {"c": Q.Keys(c.suite, k[need[0]]), "s": Q.Keys(c.suite, k[need[1]])}
            c.app = {"c": [Q.Keys(c.suite, k[need[2]])], "s": [Q.Keys(c.suite, k[need[3]])]}
            if "CLIENT_EARLY_TRAFFIC_SECRET" in k:
                c.early = Q.Keys(c.suite, k["CLIENT_EARLY_TRAFFIC_SECRET"])
