"""Reference TLS key schedules, record protection and handshake builders, written from the RFCs
(SSL 3.0: RFC 6101; TLS 1.0/1.1/1.2: RFC 2246/4346/5246, 7366 (EtM), 5288 (GCM), 6655 (CCM), 7905
(ChaCha20); TLS 1.3: RFC 8446).  Uses only hashlib/hmac and `cryptography` primitives; imports nothing
from tlexport, scapy or dpkt."""
import hashlib
import hmac as _hmac
import json
import os
import struct
import warnings
from dataclasses import dataclass

with warnings.catch_warnings():
    warnings.simplefilter("ignore")
    from cryptography.hazmat.primitives.ciphers import Cipher, modes
    from cryptography.hazmat.primitives.ciphers.algorithms import AES
    from cryptography.hazmat.primitives.ciphers.aead import AESGCM, AESCCM, ChaCha20Poly1305
    from cryptography.hazmat.decrepit.ciphers.algorithms import ARC4, TripleDES, IDEA, Camellia

SSL30, TLS10, TLS11, TLS12, TLS13 = 0x0300, 0x0301, 0x0302, 0x0303, 0x0304
VERSIONS = [SSL30, TLS10, TLS11, TLS12, TLS13]
VNAME = {SSL30: "SSL30", TLS10: "TLS10", TLS11: "TLS11", TLS12: "TLS12", TLS13: "TLS13"}

_REG = None


def registry():
    global _REG
    if _REG is None:
        p = os.path.join(os.path.dirname(os.path.dirname(os.path.abspath(__file__))), "data", "iana_tls_cipher_suites.json")
        _REG = {int(k, 16): v for k, v in json.load(open(p)).items()}
    return _REG


@dataclass(frozen=True)
class Suite:
    code: int
    name: str
    cipher: str      # AES CAMELLIA 3DES IDEA RC4 CHACHA20 (others: unsupported by the reference)
    mode: str        # CBC GCM CCM STREAM POLY1305
    keylen: int
    block: int       # cipher block bytes (CBC), 0 otherwise
    mac: str         # MD5 SHA SHA256 SHA384 or "" for AEAD
    prf: str         # SHA256 / SHA384: TLS1.2 PRF hash and TLS1.3 HKDF hash
    tag: int         # AEAD tag length
    aead: bool
    tls13: bool      # suite of the 0x13xx family

    @property
    def family(self):
        if self.mode in ("GCM", "CCM"):
            return "AEAD"
        if self.mode == "POLY1305":
            return "CHACHA"
        if self.mode == "CBC":
            return "CBC"
        return "RC4"


def denote(code: int, name: str):
    """Independent denotation of an IANA cipher-suite name: tokenise and read the parameters off the
    tokens after WITH (or after TLS_ for the 0x13xx suites).  Returns None for names whose bulk cipher
    the reference does not implement (NULL, DES, RC2, SEED, ARIA, export, GOST, SM4, ...)."""
    t = name.split("_")
    if t[0] != "TLS":
        return None
    if "WITH" in t:
        c = t[t.index("WITH") + 1:]
        tls13 = False
    else:
        c = t[1:]
        tls13 = True
    if "EXPORT" in t or "EXPORT1024" in t:
        return None
    mac = ""
    if c and c[-1] in ("MD5", "SHA", "SHA256", "SHA384"):
        mac = c[-1]
        c = c[:-1]
    tag = 16
    if c and c[-1] == "8":
        tag = 8
        c = c[:-1]
    if c == ["RC4", "128"]:
        cipher, mode, keylen, block = "RC4", "STREAM", 16, 0
    elif c == ["3DES", "EDE", "CBC"]:
        cipher, mode, keylen, block = "3DES", "CBC", 24, 8
    elif c == ["IDEA", "CBC"]:
        cipher, mode, keylen, block = "IDEA", "CBC", 16, 8
    elif len(c) == 3 and c[0] in ("AES", "CAMELLIA") and c[1] in ("128", "256") and c[2] in ("CBC", "GCM", "CCM"):
        cipher, mode, keylen, block = c[0], c[2], int(c[1]) // 8, 16 if c[2] == "CBC" else 0
    elif c == ["CHACHA20", "POLY1305"]:
        cipher, mode, keylen, block = "CHACHA20", "POLY1305", 32, 0
    else:
        return None
    aead = mode in ("GCM", "CCM", "POLY1305")
    if tag == 8 and mode != "CCM":
        return None
    if aead:
        prf = mac if mac in ("SHA256", "SHA384") else "SHA256"   # RFC 6655: CCM suites use the SHA-256 PRF
        if mac not in ("", "SHA256", "SHA384"):
            return None
        mac_out = ""
    else:
        if mac == "":
            return None
        prf = "SHA384" if mac == "SHA384" else "SHA256"          # RFC 5246 s.5 / RFC 5289
        mac_out = mac
    return Suite(code, name, cipher, mode, keylen, block, mac_out, prf, tag, aead, tls13)


def all_suites():
    out = {}
    for code, name in registry().items():
        s = denote(code, name)
        if s is not None:
            out[code] = s
    return out


def implementable(s: Suite) -> bool:
    """the reference can protect records for it (no Camellia-GCM primitive in `cryptography`)"""
    return not (s.cipher == "CAMELLIA" and s.mode != "CBC")


def valid_for(s: Suite, ver: int) -> bool:
    if s.tls13:
        return ver == TLS13
    if ver == TLS13:
        return False
    if s.aead or s.mac in ("SHA256", "SHA384"):
        return ver == TLS12
    if s.cipher == "CAMELLIA" and s.mac == "SHA":
        return ver >= TLS10   # RFC 4132 is defined for TLS; also used with SSL 3.0 by old stacks
    return True


# ------------------------------------------------------------------ hashes / PRFs
H = {"MD5": hashlib.md5, "SHA": hashlib.sha1, "SHA256": hashlib.sha256, "SHA384": hashlib.sha384}
HLEN = {"MD5": 16, "SHA": 20, "SHA256": 32, "SHA384": 48, "": 0}


def hmac(h, key, data):
    return _hmac.new(key, data, H[h]).digest()


def p_hash(h, secret, seed, n):
    out, a = b"", seed
    while len(out) < n:
        a = hmac(h, secret, a)
        out += hmac(h, secret, a + seed)
    return out[:n]


def prf10(secret, label, seed, n):
    half = (len(secret) + 1) // 2
    s1, s2 = secret[:half], secret[len(secret) - half:]
    a, b = p_hash("MD5", s1, label + seed, n), p_hash("SHA", s2, label + seed, n)
    return bytes(x ^ y for x, y in zip(a, b))


def prf12(h, secret, label, seed, n):
    return p_hash(h, secret, label + seed, n)


def ssl3_expand(secret, seed, n):
    out, i = b"", 0
    while len(out) < n:
        salt = bytes([ord("A") + i]) * (i + 1)
        out += hashlib.md5(secret + hashlib.sha1(salt + secret + seed).digest()).digest()
        i += 1
    return out[:n]


def hkdf_extract(h, salt, ikm):
    return hmac(h, salt or b"\x00" * HLEN[h], ikm)


def hkdf_expand(h, prk, info, n):
    out, t, i = b"", b"", 1
    while len(out) < n:
        t = hmac(h, prk, t + info + bytes([i]))
        out += t
        i += 1
    return out[:n]


def hkdf_expand_label(h, secret, label: bytes, ctx: bytes, n):
    full = b"tls13 " + label
    info = struct.pack("!HB", n, len(full)) + full + bytes([len(ctx)]) + ctx
    return hkdf_expand(h, secret, info, n)


def master_secret(ver, pms, cr, sr, prf="SHA256"):
    if ver == SSL30:
        return ssl3_expand(pms, cr + sr, 48)
    if ver in (TLS10, TLS11):
        return prf10(pms, b"master secret", cr + sr, 48)
    return prf12(prf, pms, b"master secret", cr + sr, 48)


def fixed_iv_len(s: Suite, ver):
    """length of the IV part of the key block as the RFCs define it (0 where no IV is defined)"""
    if s.mode in ("GCM", "CCM"):
        return 4
    if s.mode == "POLY1305":
        return 12
    if s.mode == "CBC" and ver in (SSL30, TLS10):
        return s.block
    return 0


def key_block(s: Suite, ver, ms, cr, sr):
    """-> dict cmac smac ckey skey civ siv   (RFC 5246 6.3 layout; IVs only where defined)"""
    ml, kl, il = HLEN[s.mac], s.keylen, fixed_iv_len(s, ver)
    n = 2 * ml + 2 * kl + 2 * il
    if ver == SSL30:
        kb = ssl3_expand(ms, sr + cr, n)
    elif ver in (TLS10, TLS11):
        kb = prf10(ms, b"key expansion", sr + cr, n)
    else:
        kb = prf12(s.prf, ms, b"key expansion", sr + cr, n)
    o, out = 0, {}
    for name, ln in (("cmac", ml), ("smac", ml), ("ckey", kl), ("skey", kl), ("civ", il), ("siv", il)):
        out[name] = kb[o:o + ln]
        o += ln
    return out


def tls13_traffic_keys(s: Suite, secret):
    return hkdf_expand_label(s.prf, secret, b"key", b"", s.keylen), hkdf_expand_label(s.prf, secret, b"iv", b"", 12)


# ------------------------------------------------------------------ ciphers
def _block_alg(s: Suite, key):
    return {"AES": AES, "CAMELLIA": Camellia, "3DES": TripleDES, "IDEA": IDEA}[s.cipher](key)


def _aead(s: Suite, key):
    if s.mode == "GCM":
        if s.cipher != "AES":
            raise NotImplementedError(s.name)
        return AESGCM(key)
    if s.mode == "CCM":
        return AESCCM(key, tag_length=s.tag)
    return ChaCha20Poly1305(key)


def ssl3_mac(h, secret, seq, ctype, data):
    npad = 48 if h == "MD5" else 40
    inner = H[h](secret + b"\x36" * npad + struct.pack("!QBH", seq, ctype, len(data)) + data).digest()
    return H[h](secret + b"\x5c" * npad + inner).digest()


class DirState:
    """sender-side cipher state of one direction"""

    def __init__(self, s: Suite, ver, key, iv, mac, etm=False, rnd=None):
        self.s, self.ver, self.key, self.iv, self.mac, self.etm = s, ver, key, iv, mac, etm
        self.seq = 0
        self.rnd = rnd or os.urandom
        if s.cipher == "RC4":
            self.rc4 = Cipher(ARC4(key), mode=None).encryptor()
        self.chain = iv  # CBC residue (SSL3 / TLS1.0)
        self.comp = None  # zlib compressor when DEFLATE (RFC 3749) was negotiated: one stream per direction, sync-flushed per record

    def protect(self, ctype, data, rec_ver=None, pad13=0, extra_pad_blocks=0):
        """returns the record body (what follows the 5-byte header) and the outer content type"""
        s, ver = self.s, self.ver
        rv = rec_ver if rec_ver is not None else (TLS12 if ver == TLS13 else ver)
        seq = self.seq
        self.seq += 1
        if self.comp is not None and ver != TLS13:
            import zlib
            data = self.comp.compress(data) + self.comp.flush(zlib.Z_SYNC_FLUSH)
        if ver == TLS13:
            inner = data + bytes([ctype]) + b"\x00" * pad13
            ln = len(inner) + s.tag
            aad = struct.pack("!BHH", 23, TLS12, ln)
            nonce = bytes(a ^ b for a, b in zip(self.iv, b"\x00" * 4 + struct.pack("!Q", seq)))
            return 23, _aead(s, self.key).encrypt(nonce, inner, aad)
        if s.aead:
            aad = struct.pack("!QBHH", seq, ctype, rv, len(data))
            if s.mode == "POLY1305":
                nonce = bytes(a ^ b for a, b in zip(self.iv, b"\x00" * 4 + struct.pack("!Q", seq)))
                return ctype, _aead(s, self.key).encrypt(nonce, data, aad)
            explicit = self.rnd(8)
            return ctype, explicit + _aead(s, self.key).encrypt(self.iv + explicit, data, aad)
        # MAC-then-encrypt / encrypt-then-MAC / stream
        if ver == SSL30:
            mac = ssl3_mac(s.mac, self.mac, seq, ctype, data)
        else:
            mac = hmac(s.mac, self.mac, struct.pack("!QBHH", seq, ctype, rv, len(data)) + data)
        if s.cipher == "RC4":
            return ctype, self.rc4.update(data + mac)
        bs = s.block
        body = data if self.etm else data + mac
        padlen = bs - (len(body) + 1) % bs
        if padlen == bs:
            padlen = 0
        if ver != SSL30:
            padlen += bs * extra_pad_blocks          # TLS allows up to 255 bytes of padding
        padding = bytes([padlen]) * (padlen + 1) if ver != SSL30 else self.rnd(padlen) + bytes([padlen])
        plain = body + padding
        if ver in (SSL30, TLS10):
            iv, explicit = self.chain, b""
        else:
            iv = self.rnd(bs)
            explicit = iv
        enc = Cipher(_block_alg(s, self.key), modes.CBC(iv)).encryptor()
        ct = enc.update(plain) + enc.finalize()
        self.chain = ct[-bs:]
        out = explicit + ct
        if self.etm:
            out += hmac(s.mac, self.mac, struct.pack("!QBHH", seq, ctype, rv, len(out)) + out)
        return ctype, out


def record(ctype, ver, body):
    return struct.pack("!BHH", ctype, ver, len(body)) + body


# ------------------------------------------------------------------ handshake messages
def hs_msg(t, body):
    return bytes([t]) + len(body).to_bytes(3, "big") + body


def ext(t, body):
    return struct.pack("!HH", t, len(body)) + body


def client_hello(ver, rnd, sid=b"", suites=(0x002F,), exts=b"", no_ext_block=False, compression=b"\x00"):
    hv = TLS12 if ver == TLS13 else ver
    body = struct.pack("!H", hv) + rnd + bytes([len(sid)]) + sid
    body += struct.pack("!H", 2 * len(suites)) + b"".join(struct.pack("!H", s) for s in suites)
    body += bytes([len(compression)]) + compression
    if not no_ext_block:
        body += struct.pack("!H", len(exts)) + exts
    return hs_msg(1, body)


def server_hello(ver, rnd, sid, suite, exts=b"", no_ext_block=False, hello_ver=None, compression=0):
    hv = hello_ver if hello_ver is not None else (TLS12 if ver == TLS13 else ver)
    body = struct.pack("!H", hv) + rnd + bytes([len(sid)]) + sid + struct.pack("!HB", suite, compression)
    if not no_ext_block:
        body += struct.pack("!H", len(exts)) + exts
    return hs_msg(2, body)


EXT_ETM = ext(22, b"")
EXT_RENEG = ext(0xFF01, b"\x00")
EXT_EMS = ext(23, b"")
EXT_SV13_SH = ext(43, b"\x03\x04")
EXT_SV13_CH = ext(43, b"\x02\x03\x04")


def keyshare_sh(rnd32):
    return ext(51, struct.pack("!HH", 29, 32) + rnd32)


def keylog_lines(ver, cr, ms=None, secrets13=None):
    """NSS key log lines for one connection"""
    if ver != TLS13:
        return [f"CLIENT_RANDOM {cr.hex()} {ms.hex()}"]
    return [f"{lab} {cr.hex()} {sec.hex()}" for lab, sec in secrets13.items()]


LABELS13 = ("CLIENT_HANDSHAKE_TRAFFIC_SECRET", "SERVER_HANDSHAKE_TRAFFIC_SECRET",
            "CLIENT_TRAFFIC_SECRET_0", "SERVER_TRAFFIC_SECRET_0", "EXPORTER_SECRET")
