"""Reference QUIC v1 packet protection, headers and frame encoders written from RFC 9000 / 9001 / 9221.
Independent of tlexport; uses `cryptography` primitives and wire.tlsref's HKDF only."""
import struct
import warnings

with warnings.catch_warnings():
    warnings.simplefilter("ignore")
    from cryptography.hazmat.primitives.ciphers import Cipher, modes
    from cryptography.hazmat.primitives.ciphers.algorithms import AES, ChaCha20
    from cryptography.hazmat.primitives.ciphers.aead import AESGCM, AESCCM, ChaCha20Poly1305

from .tlsref import hkdf_expand_label, hkdf_extract

SALT_V1 = bytes.fromhex("38762cf7f55934b34d179ae6a4c80cadccbb7f0a")
RETRY_KEY = bytes.fromhex("be0c690b9f66575a1d766b54e368c84e")
RETRY_NONCE = bytes.fromhex("461599d35d632bf2239825bb")

# suite -> (hash, aead kind, key length)
SUITES = {0x1301: ("SHA256", "GCM", 16), 0x1302: ("SHA384", "GCM", 32), 0x1303: ("SHA256", "CHACHA", 32),
          0x1304: ("SHA256", "CCM", 16)}
INITIAL, ZERORTT, HANDSHAKE, RETRY = 0, 1, 2, 3


MIXRNG = None      # set by a caller that wants width="mix": every variable-length integer of a frame gets its own (seeded) width


def varint(v: int, width=None) -> bytes:
    minimal = 1 if v < 64 else 2 if v < 16384 else 4 if v < 2 ** 30 else 8
    if width == "mix":
        width = MIXRNG.choice([x for x in (1, 2, 4, 8) if x >= minimal])
    width = minimal if width is None else max(width, minimal)      # a requested (non-minimal) width is a lower bound
    assert v < 1 << (8 * width - 2), (v, width)
    return (v | ({1: 0, 2: 1, 4: 2, 8: 3}[width] << (8 * width - 2))).to_bytes(width, "big")


class Keys:
    """key / iv / hp for one direction and level"""

    def __init__(self, suite, secret):
        self.suite = suite
        h, self.kind, kl = SUITES[suite]
        self.h, self.secret = h, secret
        self.key = hkdf_expand_label(h, secret, b"quic key", b"", kl)
        self.iv = hkdf_expand_label(h, secret, b"quic iv", b"", 12)
        self.hp = hkdf_expand_label(h, secret, b"quic hp", b"", kl)

    def next_gen(self):
        """RFC 9001 s.6: next generation of 1-RTT keys; the header-protection key is not updated"""
        n = Keys.__new__(Keys)
        n.suite, n.h, n.kind = self.suite, self.h, self.kind
        hl = {"SHA256": 32, "SHA384": 48}[self.h]
        n.secret = hkdf_expand_label(self.h, self.secret, b"quic ku", b"", hl)
        kl = SUITES[self.suite][2]
        n.key = hkdf_expand_label(self.h, n.secret, b"quic key", b"", kl)
        n.iv = hkdf_expand_label(self.h, n.secret, b"quic iv", b"", 12)
        n.hp = self.hp
        return n

    def aead(self):
        return {"GCM": AESGCM, "CHACHA": ChaCha20Poly1305}.get(self.kind, None)(self.key) if self.kind != "CCM" else AESCCM(self.key, tag_length=16)

    def mask(self, sample):
        if self.kind == "CHACHA":
            e = Cipher(ChaCha20(self.hp, sample), mode=None).encryptor()
            return e.update(b"\x00" * 5)
        e = Cipher(AES(self.hp), modes.ECB()).encryptor()
        return e.update(sample)[:5]


def initial_keys(odcid: bytes):
    init = hkdf_extract("SHA256", SALT_V1, odcid)
    c = hkdf_expand_label("SHA256", init, b"client in", b"", 32)
    s = hkdf_expand_label("SHA256", init, b"server in", b"", 32)
    return {"c": Keys(0x1301, c), "s": Keys(0x1301, s)}


def protect(keys: Keys, header: bytes, pn: int, pnlen: int, payload: bytes, short: bool) -> bytes:
    """header: unprotected header up to (excluding) the packet number; returns the protected packet"""
    pnb = (pn & ((1 << (8 * pnlen)) - 1)).to_bytes(pnlen, "big")
    hdr = header + pnb
    nonce = bytes(a ^ b for a, b in zip(keys.iv, pn.to_bytes(12, "big")))
    ct = keys.aead().encrypt(nonce, payload, hdr)
    assert len(pnb) + len(ct) >= 20, "payload too short for header-protection sample"
    sample = ct[4 - pnlen: 4 - pnlen + 16]
    m = keys.mask(sample)
    first = hdr[0] ^ (m[0] & (0x1F if short else 0x0F))
    pnp = bytes(a ^ b for a, b in zip(pnb, m[1:1 + pnlen]))
    return bytes([first]) + hdr[1:len(header)] + pnp + ct


def long_packet(keys: Keys, ptype: int, dcid: bytes, scid: bytes, pn: int, pnlen: int, payload: bytes,
                token: bytes = b"", version=1, len_width=2, token_len_width=None, reserved=0, fixed=1):
    ln = pnlen + len(payload) + 16
    hdr = bytes([0x80 | (0x40 if fixed else 0) | (ptype << 4) | (reserved << 2) | (pnlen - 1)]) + struct.pack("!I", version)
    hdr += bytes([len(dcid)]) + dcid + bytes([len(scid)]) + scid
    if ptype == INITIAL:
        hdr += varint(len(token), token_len_width) + token
    hdr += varint(ln, len_width)
    return protect(keys, hdr, pn, pnlen, payload, short=False)


def short_packet(keys: Keys, dcid: bytes, pn: int, pnlen: int, payload: bytes, phase=0, spin=0, fixed=1):
    # fixed = 0: the QUIC bit is greased (RFC 9287; only towards a peer that sent the grease_quic_bit transport parameter)
    hdr = bytes([(0x40 if fixed else 0) | (spin << 5) | (phase << 2) | (pnlen - 1)]) + dcid
    return protect(keys, hdr, pn, pnlen, payload, short=True)


def retry_packet(odcid: bytes, dcid: bytes, scid: bytes, token: bytes, version=1, first=0xF0):
    pkt = bytes([first]) + struct.pack("!I", version) + bytes([len(dcid)]) + dcid + bytes([len(scid)]) + scid + token
    pseudo = bytes([len(odcid)]) + odcid + pkt
    tag = AESGCM(RETRY_KEY).encrypt(RETRY_NONCE, b"", pseudo)
    return pkt + tag


def version_negotiation(dcid: bytes, scid: bytes, versions=(0x0A1A2A3A, 0x6B3343CF)):
    return bytes([0x80 | 0x2A]) + b"\x00" * 4 + bytes([len(dcid)]) + dcid + bytes([len(scid)]) + scid + \
        b"".join(struct.pack("!I", v) for v in versions)


# ------------------------------------------------------------------ frames
def f_padding(n):
    return b"\x00" * n


def f_ping():
    return b"\x01"


def f_ack(largest, delay=0, first_range=0, ranges=(), ecn=None, w=None):
    b = bytes([3 if ecn else 2]) + varint(largest, w) + varint(delay, w) + varint(len(ranges), w) + varint(first_range, w)
    for gap, rl in ranges:
        b += varint(gap, w) + varint(rl, w)
    if ecn:
        b += b"".join(varint(x, w) for x in ecn)
    return b


def f_reset_stream(sid, err, final, w=None):
    return b"\x04" + varint(sid, w) + varint(err, w) + varint(final, w)


def f_stop_sending(sid, err, w=None):
    return b"\x05" + varint(sid, w) + varint(err, w)


def f_crypto(off, data, w=None, lw=None):
    return b"\x06" + varint(off, w) + varint(len(data), lw if lw else w) + data


def f_new_token(tok, w=None):
    return b"\x07" + varint(len(tok), w) + tok


def f_stream(sid, data, off=None, fin=False, with_len=True, w=None, ow=None, lw=None):
    t = 0x08 | (4 if off is not None else 0) | (2 if with_len else 0) | (1 if fin else 0)
    b = bytes([t]) + varint(sid, w)
    if off is not None:
        b += varint(off, ow if ow else w)
    if with_len:
        b += varint(len(data), lw if lw else w)
    return b + data


def f_max_data(v, w=None):
    return b"\x10" + varint(v, w)


def f_max_stream_data(sid, v, w=None):
    return b"\x11" + varint(sid, w) + varint(v, w)


def f_max_streams(v, uni=False, w=None):
    return bytes([0x13 if uni else 0x12]) + varint(v, w)


def f_data_blocked(v, w=None):
    return b"\x14" + varint(v, w)


def f_stream_data_blocked(sid, v, w=None):
    return b"\x15" + varint(sid, w) + varint(v, w)


def f_streams_blocked(v, uni=False, w=None):
    return bytes([0x17 if uni else 0x16]) + varint(v, w)


def f_new_connection_id(seq, retire, cid, token=b"\xAA" * 16, w=None):
    return b"\x18" + varint(seq, w) + varint(retire, w) + bytes([len(cid)]) + cid + token


def f_retire_connection_id(seq, w=None):
    return b"\x19" + varint(seq, w)


def f_path_challenge(d=b"12345678"):
    return b"\x1a" + d


def f_path_response(d=b"12345678"):
    return b"\x1b" + d


def f_connection_close(err, ftype=None, reason=b"", w=None):
    if ftype is None:
        return b"\x1d" + varint(err, w) + varint(len(reason), w) + reason
    return b"\x1c" + varint(err, w) + varint(ftype, w) + varint(len(reason), w) + reason


def f_handshake_done():
    return b"\x1e"


def f_datagram(data, with_len=True, w=None):
    return (b"\x31" + varint(len(data), w) + data) if with_len else (b"\x30" + data)


def decode_pn_rfc(largest: int, trunc: int, nbits: int) -> int:
    """RFC 9000 Appendix A.3 (pseudo code transcribed with big integers)"""
    expected = largest + 1
    win = 1 << nbits
    hwin = win // 2
    mask = win - 1
    cand = (expected & ~mask) | trunc
    if cand <= expected - hwin and cand < (1 << 62) - win:
        return cand + win
    if cand > expected + hwin and cand >= win:
        return cand - win
    return cand
