"""QUIC hook events -> TraceQuic traces."""
from .tracecheck import batch

SPACE = {"INITIAL": "i", "HANDSHAKE": "h", "RTT_1": "a", "RTT_O": "a"}
LEVELSPACE = {"i": "i", "h": "h", "z": "a", "a": "a"}


def validate_quic(chk, runs):
    traces = []
    for run in runs:
        pk = []
        for dg in run["pkts"]:
            for m in dg:
                pk.append(dict(d=m["d"], sp=LEVELSPACE[m["level"]], level=m["level"], pn=m["pn"], pnlen=m["pnlen"], gen=m["gen"], noise=bool(m.get("noise"))))
        evs = []
        for e in run["events"]:
            if e["ev"] == "qpn" and e.get("full") is not None:
                evs.append(dict(ev="qpn", dir=e["dir"], space=SPACE[e["space"]], trunc=e["trunc"], pnlen=e["pnlen"], largest=int(e["largest"]),
                                full=int(e["full"]), largest_after=int(e["largest_after"])))
            elif e["ev"] == "qepoch" and e.get("ok"):
                evs.append(dict(ev="qepoch", dir=e["dir"], phase=e["phase"], epoch_c=e["epoch_c"], epoch_s=e["epoch_s"]))
            elif e["ev"] == "qcrypto" and e.get("ok"):
                evs.append(dict(ev="qcrypto", dir=e["dir"], space=e["space"], off=e["off"], len=e["len"], contig=e["contig"]))
        if any(x["ev"] == "qpn" and (x["full"] >= 2 ** 31 or x["largest"] >= 2 ** 31) for x in evs):
            continue
        if evs:
            traces.append(dict(id=len(traces) + 1, pkts=pk, events=evs, retry=bool(run.get("retry")), _run=run))
    if not traces:
        chk.extra["trace_quic"] = "no QUIC hook events recorded (hooks moved or removed?)"
        return
    acc, prog, r = batch("TraceQuic", [{k: v for k, v in t.items() if not k.startswith("_")} for t in traces])
    chk.tlc("TraceQuic batch", r)
    chk.traces_validated += len(traces)
    for t in traces:
        if t["id"] not in acc:
            p = prog[t["id"] - 1]
            ev = t["events"][p - 1] if 0 < p <= len(t["events"]) else None
            run = t["_run"]
            chk.violation(f"QUIC session trace rejected by the contract at event {p}: {ev}",
                          dict(first_unmatched_event=p, event=ev, behaviour=run.get("b"), seed=run.get("seed"), params=run.get("params"),
                               packets=t["pkts"], events=t["events"][:p + 2]))
