"""Batch trace validation: many recorded traces per TLC run (tid/l registers, POSTCONDITION), -workers 1."""
import json

from . import tlc
from .core import MachineryError


def batch(module, traces, timeout=600, consts=None):
    """traces: list of dicts with unique 'id' and 'events'.  Returns (accepted ids set, progress list)."""
    if not traces:
        return set(), []
    r = tlc.run(module, consts or {}, spec="Spec", workers=1, postcondition="Post", timeout=timeout,
                files={"traces.json": json.dumps(traces)})
    if r.violated or not r.printed:
        raise MachineryError(f"trace validation run of {module} failed: {r.violated}\n{r.out[-2500:]}")
    res = r.printed[-1]
    acc = res["accepted"]
    return set(acc if isinstance(acc, list) else []), res["progress"], r


def validate_reasm(chk, runs):
    """runs: list of dict(framing={'c':[rec lens],'s':[..]}, events=[hook events], kf=bool, isn={'c':..,'s':..})"""
    traces, origin = [], []
    for ri, run in enumerate(runs):
        if run.get("kf"):
            continue
        for d in "cs":
            evs = [e for e in run["events"] if e.get("dir") == d and e["ev"] in ("feed", "release")]
            if not evs:
                continue
            feeds = [e for e in evs if e["ev"] == "feed"]
            base = run.get("isn", {}).get(d)
            if base is None:
                base = min(e["seq"] for e in feeds) if feeds else 0
                # the lowest sequence number fed is stream offset 0 unless the sequence space wraps: then the
                # harness supplies the ISN; without it offsets are taken modulo 2^32 from the first packet fed
                if feeds and max(e["seq"] for e in feeds) - base > 2 ** 31:
                    base = min(e["seq"] for e in feeds if e["seq"] > 2 ** 31)
            tev = []
            for e in evs:
                if e["ev"] == "feed":
                    tev.append(dict(e="feed", off=(e["seq"] - base) % 2 ** 32, ln=e["len"]))
                else:
                    tev.append(dict(e="release", len=e["len"], offs=[(s - base) % 2 ** 32 for s in e["seqs"]]))
            traces.append(dict(id=len(traces) + 1, recs=run["framing"][d], events=tev))
            origin.append((ri, d))
    if not traces:
        chk.extra["trace_reasm"] = "no hook events recorded (hooks moved or removed?)"
        return
    acc, prog, r = batch("TraceReasm", traces)
    chk.tlc("TraceReasm batch", r)
    chk.traces_validated += len(traces)
    for t, (ri, d) in zip(traces, origin):
        if t["id"] not in acc:
            p = prog[t["id"] - 1]
            ev = t["events"][p - 1] if 0 < p <= len(t["events"]) else None
            chk.violation(f"reassembly trace rejected by the contract at event {p} ({ev}): records are not handed on in stream order / "
                          f"before their bytes were captured / with the wrong provenance",
                          dict(trace=t, first_unmatched_event=p, scenario=runs[ri].get("sc")))


def h8(b):
    import hashlib
    return hashlib.sha256(bytes(b)).hexdigest()[:16]


def tls_truth(conn, hs_in_log=True):
    """ground truth of the protected records of a wire.tlsconn.TlsConn, per direction"""
    from wire import tlsref as R
    out = {"c": [], "s": []}
    implicit = conn.ver in (R.SSL30, R.TLS10) and conn.suite.mode == "CBC"
    last = {}
    if implicit:
        last = {"c": conn.kb["civ"], "s": conn.kb["siv"]}
    for r in conn.records:
        if r.prot is None:
            continue
        d = dict(ct=h8(r.raw), ep=r.prot["ep"], seq=r.prot["seq"], ph=h8(r.prot["inner"]), plen=len(r.prot["inner"]),
                 app=r.kind == "APP", fin13=r.prot["fin13"], mayFail=(r.prot["ep"] == "hs" and hs_in_log not in (True, "both", r.d)),
                 chain=h8(last[r.d]) if implicit else "")
        if implicit:
            body = r.raw[5:]
            if conn.etm:
                body = body[:-R.HLEN[conn.suite.mac]]
            last[r.d] = body[-conn.suite.block:]
        out[r.d].append(d)
    return out


def validate_tls(chk, runs):
    """runs: list of dict(conn=TlsConn, events=[hook events], complete=bool, hs_in_log=bool, sc=scenario)"""
    from wire import tlsref as R
    traces = []
    for run in runs:
        conn = run["conn"]
        evs = []
        for e in run["events"]:
            if e["ev"] == "decrypt":
                evs.append(dict(ev="decrypt", dir=e["dir"], ok=bool(e["ok"]), ct=e["ct"], ph=e.get("ph") or "", plen=e.get("plen", -1) if e.get("plen") is not None else -1,
                                seq=e["seq"], seq_after=e["seq_after"], epoch=e["epoch"], chain=e.get("chain") or ""))
            elif e["ev"] == "keyswitch":
                evs.append(dict(ev="keyswitch", dir=e["dir"], epoch=e["epoch"], seq_after=e["seq_after"]))
        if not evs:
            continue
        truth = run.get("truth") or tls_truth(conn, run.get("hs_in_log", True))
        traces.append(dict(id=len(traces) + 1, recs=truth, events=evs, complete=bool(run.get("complete", True)),
                           useSeq=conn.suite.aead, useChain=(conn.ver in (R.SSL30, R.TLS10) and conn.suite.mode == "CBC"),
                           _sc=run.get("sc")))
    if not traces:
        chk.extra["trace_tls"] = "no decrypt events recorded (hooks moved or removed?)"
        return
    # TLC cannot read JSON null: normalise
    def norm(x):
        if isinstance(x, dict):
            return {k: norm(v) for k, v in x.items() if not k.startswith("_")}
        if isinstance(x, list):
            return [norm(v) for v in x]
        return "" if x is None else x
    acc, prog, r = batch("TraceTls", [norm(t) for t in traces])
    chk.tlc("TraceTls batch", r)
    chk.traces_validated += len(traces)
    for t in traces:
        if t["id"] not in acc:
            p = prog[t["id"] - 1]
            ev = t["events"][p - 1] if 0 < p <= len(t["events"]) else "end of trace: not every application record was decrypted"
            chk.violation(f"record-layer trace rejected by the contract at event {p}: {ev}",
                          dict(first_unmatched_event=p, event=ev, scenario=t["_sc"], trace_events=t["events"][:p + 2]))
