"""Batch trace validation: many recorded traces per TLC run (tid/l registers, POSTCONDITION), -workers 1."""
import json

from . import tlc
from .core import MachineryError


def batch(module, traces, timeout=600, consts=None):
    """traces: list of dicts with unique 'id' and 'events'.  Returns (accepted ids set, progress list)."""
    if not traces:
        return set(), []
    r = tlc.run(module, consts or {}, spec="Spec", workers=1, postcondition="Post", timeout=timeout,
                files={"traces.json": json.dumps(traces)})
    if r.violated or not r.printed:
        raise MachineryError(f"trace validation run of {module} failed: {r.violated}\n{r.out[-2500:]}")
    res = r.printed[-1]
    acc = res["accepted"]
    return set(acc if isinstance(acc, list) else []), res["progress"], r


def validate_reasm(chk, runs):
    """runs: list of dict(framing={'c':[rec lens],'s':[..]}, events=[hook events], kf=bool, isn={'c':..,'s':..})"""
    traces, origin = [], []
    for ri, run in enumerate(runs):
        if run.get("kf"):
            continue
        for d in "cs":
            evs = [e for e in run["events"] if e.get("dir") == d and e["ev"] in ("feed", "release")]
            if not evs:
                continue
            feeds = [e for e in evs if e["ev"] == "feed"]
            base = run.get("isn", {}).get(d)
            if base is None:
                base = min(e["seq"] for e in feeds) if feeds else 0
                # the lowest sequence number fed is stream offset 0 unless the sequence space wraps: then the
                # harness supplies the ISN; without it offsets are taken modulo 2^32 from the first packet fed
                if feeds and max(e["seq"] for e in feeds) - base > 2 ** 31:
                    base = min(e["seq"] for e in feeds if e["seq"] > 2 ** 31)
            tev = []
            for e in evs:
                if e["ev"] == "feed":
                    tev.append(dict(e="feed", off=(e["seq"] - base) % 2 ** 32, ln=e["len"]))
                else:
                    tev.append(dict(e="release", len=e["len"], offs=[(s - base) % 2 ** 32 for s in e["seqs"]]))
            traces.append(dict(id=len(traces) + 1, recs=run["framing"][d], events=tev))
            origin.append((ri, d))
    if not traces:
        chk.extra["trace_reasm"] = "no hook events recorded (hooks moved or removed?)"
        return
    acc, prog, r = batch("TraceReasm", traces)
    chk.tlc("TraceReasm batch", r)
    chk.traces_validated += len(traces)
    for t, (ri, d) in zip(traces, origin):
        if t["id"] not in acc:
            p = prog[t["id"] - 1]
            ev = t["events"][p - 1] if 0 < p <= len(t["events"]) else None
            chk.violation(f"reassembly trace rejected by the contract at event {p} ({ev}): records are not handed on in stream order / "
                          f"before their bytes were captured / with the wrong provenance",
                          dict(trace=t, first_unmatched_event=p, scenario=runs[ri].get("sc")))
