#!/bin/sh
# mutant_eval.sh <dir containing patch.diff and demo.py|demo.sh> <check ids to run...>
# Applies a seeded change to /repo, confirms (a) the repository's tests still pass, (b) the demonstration fails with the change
# and passes without it (repository = $VERIF_REPO, default /repo), runs the named checks (quick tier) against the changed tree, and ALWAYS restores /repo.
d="$1"; shift
R=${VERIF_REPO:-/repo}
cd "$R" || exit 2
[ -z "$(git status --porcelain)" ] || { echo "REPO NOT CLEAN"; exit 2; }
demo="$d/demo.py"; runner="/venv/bin/python"
[ -f "$demo" ] || { demo="$d/demo.sh"; runner="sh"; }
echo "== demo on the clean tree (must exit 0)"; $runner "$demo" "$R" >/tmp/mut_demo_clean.log 2>&1; echo "demo_clean_exit=$?"
git apply --check "$d/patch.diff" || { echo "PATCH DOES NOT APPLY"; exit 2; }
git apply "$d/patch.diff"
trap 'git -C "$R" checkout -- . >/dev/null 2>&1' EXIT INT TERM
echo "== repository tests with the change"; /venv/bin/python -m pytest -q -p no:cacheprovider 2>&1 | tail -1
echo "== demo with the change (must exit non-zero)"; $runner "$demo" "$R" >/tmp/mut_demo_mut.log 2>&1; echo "demo_mutant_exit=$?"
cd ${VERIF_DIR:-/verif}
for c in "$@"; do
  VERIF_REPO="$R" ./check "$c" --tier quick >/tmp/mut_check_$c.$$.log 2>&1; rc=$?
  echo "check $c exit=$rc  $(grep -c '^VIOLATION' /tmp/mut_check_$c.$$.log) violation lines; $(tail -1 /tmp/mut_check_$c.$$.log | cut -c1-160)"
  grep -m2 'what:' /tmp/mut_check_$c.$$.log | cut -c1-220; rm -f /tmp/mut_check_$c.$$.log
done
rm -rf ${VERIF_DIR:-/verif}/replays/violations
git -C "$R" checkout -- .
echo "== restored: $(git -C "$R" status --porcelain | wc -l) modified files"
