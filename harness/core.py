"""Common infrastructure of all checks: seeds, process pool, violation reporting, known findings, evidence."""
import hashlib
import json
import multiprocessing as mp
import os
import sys
import time

VERIF = os.path.dirname(os.path.dirname(os.path.abspath(__file__)))
EVID = os.path.join(VERIF, "evidence")
REPLAYS = os.path.join(VERIF, "replays")
VIOL = os.path.join(REPLAYS, "violations")
KF_FILE = os.path.join(VERIF, "known_findings.json")


def jsonable(x):
    if isinstance(x, (bytes, bytearray)):
        return x.hex()
    if isinstance(x, dict):
        return {str(k): jsonable(v) for k, v in x.items()}
    if isinstance(x, (list, tuple, set, frozenset)):
        return [jsonable(v) for v in x]
    if isinstance(x, (int, float, str, bool)) or x is None:
        return x
    return repr(x)


class MachineryError(Exception):
    pass


class Check:
    def __init__(self, pid, tier, seed):
        self.pid, self.tier, self.seed = pid, tier, seed
        self.t0 = time.time()
        self.violations = []          # (what, replay_path)
        self.known_hits = {}          # finding id -> count
        self.states = 0
        self.transitions = 0
        self.tlc_runs = []
        self.evaluations = 0
        self.distinct = set()
        self.traces_validated = 0
        self.samples = []
        self.extra = {}
        self.assumptions = []
        self.rule = ""
        self.exhaustive = False
        with open(KF_FILE) as f:
            self.kf = json.load(f)

    # ------------------------------------------------------------ TLC bookkeeping
    def tlc(self, name, result, expect_ok=True):
        """records a TLC run; a failed model check of the KF-disabled spec is a machinery/spec alarm (exit 2),
        not a verdict on the code"""
        self.tlc_runs.append(dict(name=name, **result.stats(), ok=result.ok, violated=result.violated))
        self.states += result.distinct
        self.transitions += result.generated
        if expect_ok and not result.ok:
            sys.stdout.write(result.trace_text[:4000] + "\n")
            raise MachineryError(f"TLC run {name}: {result.violated}")
        return result

    # ------------------------------------------------------------ verdicts
    def known(self, what_key):
        """returns the known-finding entry whose 'match' equals what_key for this property, if any"""
        for e in self.kf.get("findings", []):
            if e["property"] == self.pid and e["match"] == what_key:
                return e
        return None

    def violation(self, what, replay_obj, kf_key=None):
        """report a contract violation of the real code.  If kf_key names a listed known finding the hit is
        counted under it instead."""
        if kf_key:
            e = self.known(kf_key)
            if e is not None:
                self.known_hits[e["id"]] = self.known_hits.get(e["id"], 0) + 1
                return False
        os.makedirs(VIOL, exist_ok=True)
        blob = json.dumps(jsonable(replay_obj), sort_keys=True, indent=1)
        h = hashlib.sha256(blob.encode()).hexdigest()[:12]
        path = os.path.join(VIOL, f"{self.pid}-{h}.json")
        if len(self.violations) < 25:
            with open(path, "w") as f:
                f.write(blob)
        self.violations.append((what, path))
        if len(self.violations) <= 10:
            print(f"VIOLATION property={self.pid} replay={path}")
            print(f"  what: {what}")
            sys.stdout.flush()
        return True

    def sample(self, obj, limit=5):
        if len(self.samples) < limit:
            self.samples.append(jsonable(obj))

    # ------------------------------------------------------------ finish
    def finish(self, level="model_checking"):
        for e in self.kf.get("findings", []):
            if e["property"] == self.pid and e["id"] in self.known_hits:
                print(f"KNOWN-FINDING: property={self.pid} {e['what']} [{e['id']}: {self.known_hits[e['id']]} hit(s)]")
        cov = dict(states=self.states, transitions=self.transitions,
                   traces_validated_against_impl=self.traces_validated,
                   samples=self.samples or [{"note": "no sample recorded"}],
                   evaluations=self.evaluations, distinct_nontrivial=len(self.distinct), rule=self.rule,
                   exhaustive=self.exhaustive, tlc_runs=self.tlc_runs, known_finding_hits=self.known_hits)
        cov.update(self.extra)
        ev = dict(property_id=self.pid, tier=self.tier, seed=self.seed, level=level, coverage=cov,
                  assumptions=self.assumptions, wall_s=round(time.time() - self.t0, 2),
                  violations=len(self.violations))
        os.makedirs(EVID, exist_ok=True)
        with open(os.path.join(EVID, f"{self.pid}.json"), "w") as f:
            json.dump(jsonable(ev), f, indent=1)
        n = len(self.violations)
        if n > 10:
            import re
            cls = {}
            for w, _p in self.violations:
                k = re.sub(r"\d+", "N", w)[:200]
                cls[k] = cls.get(k, 0) + 1
            print(f"  ... {n} violations in {len(cls)} classes:")
            for k, v in sorted(cls.items(), key=lambda kv: -kv[1])[:25]:
                print(f"  {v:6d} x {k}")
        print(f"[{self.pid}] tier={self.tier} seed={self.seed} states={self.states} transitions={self.transitions} "
              f"evaluations={self.evaluations} distinct={len(self.distinct)} traces={self.traces_validated} "
              f"violations={n} wall={ev['wall_s']}s")
        return 1 if n else 0


_POOL = None


def pool_map(fn, items, procs=None, chunksize=None):
    """runs fn over items in worker processes (fork); results in order"""
    items = list(items)
    if not items:
        return []
    procs = procs or min(16, os.cpu_count() or 4)
    if len(items) < 4 or procs == 1:
        return [fn(x) for x in items]
    from . import runner
    runner.scratch()                      # the scratch root exists before the workers are forked: they put their directories inside it
    ctx = mp.get_context("fork")
    with ctx.Pool(procs) as p:
        return p.map(fn, items, chunksize=chunksize or max(1, len(items) // (procs * 8)))
