"""Concretizes abstract TLS scenarios (dicts, JSON-able) into captures, runs the working tree of /repo on
them and projects the output with the independent observer."""
import random

from observe.pcapng import Observation
from wire import tlsref as R
from wire.capture import Capture, Seg, record_spans, segment, tcp_capture
from wire.container import pcapng_bytes
from wire.l2l4 import mk_flow
from wire.tlsconn import TlsConn

from . import runner

_SUITES = None


def suites():
    global _SUITES
    if _SUITES is None:
        _SUITES = R.all_suites()
    return _SUITES


def build_conn(cd):
    s = suites()[cd["suite"]]
    c = TlsConn(cd["ver"], s, seed=cd.get("seed", 0), **cd.get("shape", {}))
    tick = set(cd.get("tickets13", ()))
    alerts = {int(k): v for k, v in (cd.get("alert_at") or {}).items()}
    for i, a in enumerate(cd.get("app", ())):
        if i in tick and cd["ver"] == R.TLS13:
            c.ticket13()
        for d in (cd.get("ku_at") or {}).get(str(i), ()):
            c.key_update(d, request=bool(i % 2))
        if cd.get("reneg_at") == i and cd["ver"] != R.TLS13:
            c.renegotiate()
        if cd.get("hreq_at") == i and cd["ver"] != R.TLS13:
            c.hello_request()
        if i in alerts:                     # e.g. a half-close: close_notify of one side while the other still sends
            c.alert(alerts[i][0], alerts[i][1], 0)
        c.app(a[0], a[1], pad13=a[2] if len(a) > 2 else None)
    for d in (cd.get("ku_at") or {}).get(str(len(cd.get("app", ()))), ()):
        c.key_update(d)
    if cd.get("alert_end"):
        lvl = 1 if cd["alert_end"] == "warning" else 2
        c.alert("c", lvl, 0)
    return c


def flow_of(cd, i):
    f = cd.get("flow", {})
    if "cip" in f:   # explicit endpoints (hex strings)
        from wire.l2l4 import Endpoint, Flow
        return Flow(Endpoint(bytes.fromhex(f["cmac"]), bytes.fromhex(f["cip"]), f["cport"]),
                    Endpoint(bytes.fromhex(f["smac"]), bytes.fromhex(f["sip"]), f["sport"]))
    return mk_flow(f.get("idx", i), ipv=f.get("ipv", 4), cport=f.get("cport"), sport=f.get("sport", 443),
                   chost=f.get("chost"), shost=f.get("shost"))


def cell_offsets(raw_len, ncells_body, H=5):
    """byte offset of every cell boundary of a record with H header cells + ncells_body body cells"""
    body = raw_len - H
    offs = list(range(H + 1))
    for j in range(1, ncells_body + 1):
        offs.append(H + (j * body) // ncells_body)
    return offs  # len = H + ncells_body + 1


def sched_segments(conn, ci, sch):
    """Segment list of a connection in which one flight (consecutive records of one direction) is delivered
    according to an abstract schedule (cells), everything else one record per segment in order."""
    d, first, cells, hist = sch["dir"], sch["first_rec"], sch["cells"], sch["hist"]
    spans = record_spans(conn, d)
    fl = [(s, e, r) for s, e, r in spans if r.idx >= first][:len(cells)]
    assert len(fl) == len(cells), "flight shorter than the abstract stream"
    idxs = [r.idx for _, _, r in fl]
    assert all(conn.records[i].d == d for i in range(idxs[0], idxs[-1] + 1)), "flight is not consecutive"
    # cell -> byte offset map of the flight
    cellmap, base = [], fl[0][0]
    for (s, e, r), nb in zip(fl, cells):
        offs = cell_offsets(e - s, nb)
        cellmap += [s + o for o in offs[:-1]]
    cellmap.append(fl[-1][1])
    stream = conn.stream(d)
    pre = [sg for sg in segment(conn, ci) if not (sg.d == d and base <= sg.off < fl[-1][1])]
    before = [sg for sg in pre if sg.emit < idxs[0]]
    after = [sg for sg in pre if sg.emit >= idxs[0]]
    mid = []
    for h in hist:
        a, b = cellmap[h["st"]], cellmap[h["st"] + h["ln"]]
        rs = tuple(r.idx for s, e, r in fl if s < b and e > a)
        mid.append(Seg(ci, d, a, stream[a:b], emit=idxs[-1], recs=rs, dup=bool(h.get("dup"))))
    return before + mid + after, cellmap


def build_tls_capture(sc):
    """-> (Capture, keylog lines, conns, flows)"""
    from wire import l2l4 as _l
    _l.VARIATION.clear()
    _l.VARIATION.update(sc.get("l2") or {})            # legitimate lower-layer variations (TCP/IP options, IPv6 extension header, padding)
    try:
        return _build_tls_capture(sc)
    finally:
        _l.VARIATION.clear()


def _build_tls_capture(sc):
    conns = [build_conn(cd) for cd in sc["conns"]]
    flows = [flow_of(cd, i) for i, cd in enumerate(sc["conns"])]
    seglists, isns = [], []
    for i, (cd, c) in enumerate(zip(sc["conns"], conns)):
        if cd.get("sched"):
            sl, _ = sched_segments(c, i, cd["sched"])
        else:
            sl = segment(c, i, cuts=cd.get("cuts"), mss=cd.get("mss"))
            if cd.get("perturb"):
                sl = perturb(sl, cd["perturb"])
        seglists.append(sl)
        isns.append(tuple(cd.get("isn", (1000 + 77 * i, 5000 + 131 * i))))
    cap = tcp_capture(conns, flows, order=sc.get("order"), isns=isns, seglists=seglists,
                      cap=Capture(ts0=sc.get("ts0", 1_700_000_000_123_456), step=sc.get("step", 1_237)))
    if sc.get("duplex"):
        # full-duplex traffic: a later part of a record that spans several segments is captured after a segment of the OTHER direction
        # that was sent meanwhile (application phase only, where the two directions are independent)
        import random as _r
        rng = _r.Random(sc["duplex"])
        pk, me = list(cap.pkts), list(cap.meta)
        i = 1
        while i < len(pk) - 1:
            a, b = me[i], me[i + 1]
            if a is not None and b is not None and a.conn == b.conn and a.d != b.d and not a.dup and not b.dup and rng.random() < sc.get("duplex_p", 0.5):
                ca = conns[a.conn]
                prev = me[i - 1]
                same_rec = prev is not None and prev.conn == a.conn and prev.d == a.d and set(prev.recs) & set(a.recs)
                if same_rec and all(ca.records[r].kind == "APP" for r in a.recs + b.recs):
                    pk[i], pk[i + 1] = (pk[i][0], pk[i + 1][1]), (pk[i + 1][0], pk[i][1])      # frames swap places, capture times stay increasing
                    me[i], me[i + 1] = me[i + 1], me[i]
                    i += 1
            i += 1
        cap.pkts, cap.meta = pk, me
    if sc.get("pause"):
        # a long silence in mid-connection (an idle keep-alive connection, a suspended laptop, a clock step forward): every packet from index k on
        # is captured `seconds` later
        k, seconds = sc["pause"]
        k = max(1, min(len(cap.pkts) - 1, k))
        cap.pkts = [(ts + (seconds * 10 ** 6 if i >= k else 0), fr) for i, (ts, fr) in enumerate(cap.pkts)]
    if sc.get("fin_data"):
        # the application closes right after its last write: the last data segment of each direction carries FIN|PSH|ACK
        from wire.l2l4 import set_tcp_flags, FIN, PSH, ACK
        last = {}
        for i, m in enumerate(cap.meta):
            if m is not None and not m.dup:
                last[(m.conn, m.d)] = i
        for i in last.values():
            cap.pkts[i] = (cap.pkts[i][0], set_tcp_flags(cap.pkts[i][1], FIN | PSH | ACK))
    if sc.get("tsjitter"):
        # capture files need not be chronological (merged interfaces, clock steps): file order is what counts.
        # every packet gets a distinct time, locally out of order with respect to its neighbours
        import random as _r
        rng = _r.Random(sc["tsjitter"])
        n = len(cap.pkts)
        slots = list(range(n))
        for i in range(0, n - 1, 1):
            if rng.random() < 0.4:
                j = min(n - 1, i + rng.randint(1, 3))
                slots[i], slots[j] = slots[j], slots[i]
        cap.pkts = [(cap.ts0 + slots[i] * cap.step, fr) for i, (_t, fr) in enumerate(cap.pkts)]
    keylog = [l for c in conns for l in c.keylog]
    return cap, keylog, conns, flows


def perturb(segs, ops):
    """ops: list of ('dup', i, j) duplicate segment i after position j  /  ('move', i, k) move segment i k places later"""
    segs = list(segs)
    for op in ops:
        if op[0] == "dup":
            s = segs[op[1]]
            segs.insert(min(len(segs), op[2] + 1), Seg(s.conn, s.d, s.off, s.data, s.emit, s.recs, dup=True))
        elif op[0] == "move":
            s = segs.pop(op[1])
            segs.insert(min(len(segs), op[1] + op[2]), s)
    return segs


def out_port(sport, opts):
    """documented exported server port (C10): original unless -m is given"""
    if "-m" not in opts:
        return sport
    i = opts.index("-m")
    pm = {}
    for a in opts[i + 1:]:
        if a.startswith("-"):
            break
        a = a.replace(",", "")
        k, v = a.split(":")
        pm[int(k)] = int(v)
    if not pm and (i + 1 >= len(opts) or opts[i + 1].startswith("-")):
        pm = {443: 8080}
    return pm.get(sport, 8080)


def observe_tls(res, conns, flows, opts=()):
    """per connection: exported streams and observer findings"""
    out = dict(crashed=res.crashed, exc=(res.exc or "")[-600:], exit=res.exit, problems=[], conns=[])
    if res.out is None:
        out["problems"].append("no output file")
        return out, None
    o = Observation(res.out)
    out["problems"] = o.problems[:10]
    for c, f in zip(conns, flows):
        cv = o.tcp_conv(f.client.ip, f.client.port, f.server.ip, out_port(f.server.port, list(opts)))
        if cv is None:
            out["conns"].append(dict(found=False, c=b"", s=b""))
        else:
            out["conns"].append(dict(found=True, c=cv["streams"]["c"], s=cv["streams"]["s"], segs=cv["segs"],
                                     hs_ts=cv.get("hs_ts"), macs=cv["macs"]))
    return out, o


def run_tls(sc, trace=False):
    cap, keylog, conns, flows = build_tls_capture(sc)
    opts = sc.get("opts", [])
    ct = sc.get("container", {})
    pkts = cap.pkts
    if sc.get("stale_first"):
        # the capture begins with the tail of an OLDER connection on the same 4-tuple: one server->client segment holding one whole record
        # (sequence numbers unrelated to the new connection's).  The session is then opened by a server->client segment.
        from wire.l2l4 import tcp_frame
        import random as _r
        rr = _r.Random(sc["stale_first"])
        sq, ak = rr.randrange(1 << 32), rr.randrange(1 << 32)          # (drawn first: checks recompute the stale sequence number from the seed)
        body = bytes(rr.getrandbits(8) for _ in range(rr.choice([24, 40, 333])))
        stale = tcp_frame(flows[0], "s", sq, ak, R.record(23, 0x0303, body))
        pkts = [(pkts[0][0] - 5000, stale)] + list(pkts)
    if sc.get("zoo"):
        # what a real capture contains besides the connections: other protocols / encapsulations, control segments, fragments, runts
        # (wire/zoo.py) at seeded positions; each takes the timestamp of its predecessor + 1 us
        from wire import zoo as _zoo
        import random as _r
        rz = _r.Random(sc["zoo"])
        members = _zoo.frames(flows[0], rz)
        if isinstance(sc.get("zoo_only"), list):
            members = [m for m in members if m[0] in sc["zoo_only"]]
        pkts = list(pkts)
        for _name, fr in members:
            k = rz.randrange(1, len(pkts) + 1)
            pkts.insert(k, (pkts[k - 1][0] + 1, fr))
    if ct.get("sub"):      # sub-microsecond parts: timestamps become rationals (numerator, denominator) of seconds
        pkts = [((ts * 1000 + (i * 377) % 1000, 10 ** 9), fr) for i, (ts, fr) in enumerate(cap.pkts)]
    data = pcapng_bytes(pkts, le=ct.get("le", True), tsresol=ct.get("tsresol"), tsoffset=ct.get("tsoffset"),
                        second_if=tuple(ct["second_if"]) if ct.get("second_if") else None)
    res = runner.run_inproc(data, "\n".join(keylog) + "\n", opts=opts, trace=trace, stale_out=sc.get("stale_out"))
    obs, o = observe_tls(res, conns, flows, opts)
    return cap, conns, flows, res, obs, o
