#!/bin/sh
# mutant_eval_multi.sh <dir with patch<k>.diff / demo<k>.py / meta<k>.json, k = 1..3> <check ids...>
# runs harness/mutant_eval.sh once per delivered change
d="$1"; shift
H=$(cd "$(dirname "$0")" && pwd)
for k in 1 2 3; do
  [ -f "$d/patch$k.diff" ] || continue
  t=$(mktemp -d)
  cp "$d/patch$k.diff" "$t/patch.diff"; cp "$d/demo$k.py" "$t/demo.py" 2>/dev/null; cp "$d/meta$k.json" "$t/meta.json" 2>/dev/null
  echo "######## $(basename "$d") change $k"
  sh "$H/mutant_eval.sh" "$t" "$@"
  rm -rf "$t"
done
