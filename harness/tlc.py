"""TLC driver: builds a model (wrapper module + cfg) in a scratch directory, runs TLC under a timeout,
parses statistics, violated properties, coverage and JSON lines printed with PrintT(ToJson(..))."""
import json
import os
import re
import shutil
import subprocess
import tempfile
import time

from .runner import scratch

SPEC_DIR = os.path.join(os.path.dirname(os.path.dirname(os.path.abspath(__file__))), "spec")
JAR = "/opt/veriftools/tla/tla2tools.jar:/opt/veriftools/tla/CommunityModules-deps.jar"


class TlcResult:
    def __init__(self):
        self.ok = False            # finished without violation / error
        self.violated = None       # name of violated invariant / property, or 'deadlock', or 'error'
        self.generated = 0
        self.distinct = 0
        self.depth = 0
        self.printed = []          # decoded JSON values printed by the spec
        self.coverage = {}         # action name -> (taken, distinct)
        self.wall = 0.0
        self.cmd = ""
        self.out = ""
        self.trace_text = ""
        self.timed_out = False

    def stats(self):
        return dict(states=self.distinct, transitions=self.generated, depth=self.depth, wall_s=round(self.wall, 2),
                    coverage=self.coverage)


def _decode_printed(out):
    vals = []
    for line in out.splitlines():
        line = line.strip()
        if line.startswith('"{') or line.startswith('"['):
            try:
                vals.append(json.loads(json.loads(line)))
            except Exception:
                pass
    return vals


def run(module, consts=None, invariants=(), properties=(), view=None, constraint=None, action_constraint=None,
        spec="Spec", init=None, nxt=None, deadlock=False, workers=16, simulate=None, seed=None, timeout=600,
        coverage=False, extra_defs="", postcondition=None, env=None, depth=None, xmx="6g", extends=(),
        files=None, keep=False):
    """consts: name -> TLA+ expression (string).  simulate: (num, depth) or None.
    files: extra {name: text} written next to the model (e.g. trace JSON)."""
    consts = consts or {}
    d = tempfile.mkdtemp(prefix="tlc_", dir=scratch())
    for f in os.listdir(SPEC_DIR):
        if f.endswith(".tla"):
            shutil.copy(os.path.join(SPEC_DIR, f), d)
    for name, text in (files or {}).items():
        mode = "wb" if isinstance(text, bytes) else "w"
        with open(os.path.join(d, name), mode) as f:
            f.write(text)
    mc = [f"---- MODULE MC ----", "EXTENDS " + ", ".join((module,) + tuple(extends))]
    cfg = []
    for k, v in consts.items():
        mc.append(f"MC_{k} == {v}")
        cfg.append(f"CONSTANT {k} <- MC_{k}")
    if extra_defs:
        mc.append(extra_defs)
    mc.append("====")
    if init and nxt:
        cfg += [f"INIT {init}", f"NEXT {nxt}"]
    else:
        cfg.append(f"SPECIFICATION {spec}")
    for i in invariants:
        cfg.append(f"INVARIANT {i}")
    for p in properties:
        cfg.append(f"PROPERTY {p}")
    if view:
        cfg.append(f"VIEW {view}")
    if constraint:
        cfg.append(f"CONSTRAINT {constraint}")
    if action_constraint:
        cfg.append(f"ACTION_CONSTRAINT {action_constraint}")
    if postcondition:
        cfg.append(f"POSTCONDITION {postcondition}")
    cfg.append(f"CHECK_DEADLOCK {'TRUE' if deadlock else 'FALSE'}")
    with open(os.path.join(d, "MC.tla"), "w") as f:
        f.write("\n".join(mc) + "\n")
    with open(os.path.join(d, "MC.cfg"), "w") as f:
        f.write("\n".join(cfg) + "\n")
    cmd = ["java", f"-Xmx{xmx}", "-XX:+UseParallelGC", f"-Djava.io.tmpdir={d}", "-cp", JAR, "tlc2.TLC", "-workers", str(workers),
           "-metadir", os.path.join(d, "meta"), "-noGenerateSpecTE", "-config", "MC.cfg"]
    if simulate:
        cmd += ["-simulate", f"num={simulate[0]}", "-depth", str(simulate[1])]
    elif depth:
        cmd += ["-depth", str(depth)]
    if seed is not None:
        cmd += ["-seed", str(seed)]
    if coverage:
        cmd += ["-coverage", "1"]
    cmd.append("MC.tla")
    r = TlcResult()
    r.cmd = " ".join(cmd)
    t0 = time.time()
    e = dict(os.environ)
    e.update(env or {})
    try:
        p = subprocess.run(cmd, cwd=d, capture_output=True, text=True, timeout=timeout, env=e)
        r.out = p.stdout + p.stderr
    except subprocess.TimeoutExpired as ex:
        r.out = (ex.stdout or b"").decode(errors="replace") if isinstance(ex.stdout, bytes) else (ex.stdout or "")
        r.timed_out = True
    r.wall = time.time() - t0
    out = r.out
    m = re.findall(r"(\d+) states generated, (\d+) distinct states found", out)
    if m:
        r.generated, r.distinct = int(m[-1][0]), int(m[-1][1])
    m = re.search(r"depth of the complete state graph search is (\d+)", out)
    if m:
        r.depth = int(m.group(1))
    if simulate:
        m = re.search(r"The number of states generated: (\d+)", out)
        if m:
            r.generated = int(m.group(1))
            r.distinct = r.distinct or r.generated
    r.printed = _decode_printed(out)
    for m in re.finditer(r"<(\w+) line \d+, col \d+ to line \d+, col \d+ of module (\w+)>: (\d+):(\d+)", out):
        r.coverage[m.group(1)] = (int(m.group(4)), int(m.group(3)))
    if r.timed_out:
        r.violated = "timeout"
    elif "Error: Invariant" in out:
        r.violated = re.search(r"Error: Invariant (\S+) is violated", out).group(1)
    elif "Error: Action property" in out or "Temporal properties were violated" in out:
        m = re.search(r"Error: Action property (\S+)", out)
        r.violated = m.group(1) if m else "temporal"
    elif "Deadlock reached" in out:
        r.violated = "deadlock"
    elif "Error:" in out or "Finished" not in out and "finished" not in out.lower():
        r.violated = "error"
    if r.violated:
        i = out.find("Error:")
        r.trace_text = out[i:i + 60000] if i >= 0 else out[-3000:]
    r.ok = r.violated is None
    if not keep:
        shutil.rmtree(d, ignore_errors=True)
    else:
        r.dir = d
    return r
