"""Concretizes abstract QUIC behaviours (Quic.tla `hist`) into captures, runs the working tree, observes."""
import random

from observe.pcapng import Observation
from wire import quicref as Q
from wire.capture import Capture, udp_capture
from wire.container import pcapng_bytes
from wire.l2l4 import mk_flow
from wire.quicconn import QuicConn, filler
from wire.tlsref import hs_msg

from . import runner
from .tlsrun import out_port

SUITE = {"1301": 0x1301, "1302": 0x1302, "1303": 0x1303, "1304": 0x1304}


def offered(first, suite, rng):
    others = [s for s in (0x1301, 0x1302, 0x1303, 0x1304) if s != suite]
    if first == "same":
        return [suite] + rng.sample(others, 2)
    if first == "grease":
        return [0x0A0A, suite] + rng.sample(others, 1)
    if first == "other":
        return [0x1302 if suite == 0x1301 else 0x1301, suite]
    return [int(first, 16), suite]          # explicit first offered suite


def build_conn(b, seed, params=None):
    """behaviour dict (Quic.tla Emit) -> (QuicConn, payload bytes by stream id)"""
    rng = random.Random(seed)
    p = dict(params or {})
    suite = SUITE[b["suite"]]
    p.setdefault("offered", offered(b["first"], suite, rng))
    p["zero_rtt"] = b["zrtt"]
    c = QuicConn(suite, seed=seed, **p)
    if p.get("init_token"):                 # a token from an earlier connection's NEW_TOKEN frame in the very first Initial
        c.token = c.g(p["init_token"])
    ch = c.client_hello()
    n = len(b["split"])
    cuts = [len(ch) * i // n for i in range(n + 1)]
    piece = {i + 1: (cuts[i], ch[cuts[i]:cuts[i + 1]]) for i in range(n)}
    sh, sf, cf = c.server_hello(), c.server_flight(), hs_msg(20, c.g(32))
    msgs = {"SH": sh, "SF": sf, "CF": cf}
    payload = {}
    w = p.get("varint_w")
    sid_next = {"c": 0, "s": 1}
    soff = {}
    cidseq = {"c": 1, "s": 1}

    def frames(pk, d):
        out, sdata, cdata = b"", b"", b""
        fr = pk["frames"]
        for i, f in enumerate(fr):
            if f["ft"] == "crypto":
                if f["a"] == "CH":
                    o, dta = piece[f["b"]]
                else:
                    o, dta = 0, msgs[f["a"]]
                out += Q.f_crypto(o, dta, w=w if len(dta) < 64 else None, lw=None)
                cdata += dta
            elif f["ft"] == "stream":
                nbytes = rng.choice([1, 7, 40, 200, 900])
                if p.get("big_dgrams") and pk["t"] == "A" and sum(1 for x in fr if x["ft"] == "stream") == 1 and rng.random() < 0.4:
                    nbytes = rng.choice([1400, 21000, 60000])      # up to (nearly) the largest UDP payload: nothing on the way may assume an MTU or a snap length
                dta = filler(f"{d}{f['a']}".encode(), nbytes)
                payload[f["a"]] = dta
                sid = rng.choice([0, 4, 8]) + (1 if d == "s" and rng.random() < 0.3 else 0) if pk["t"] != "Z" else 0
                if pk["t"] == "Z" and sum(1 for x in fr if x["ft"] == "stream") == 3 and [x for x in fr if x["ft"] == "stream"].index(f) == 2:
                    sid = 4         # third STREAM frame of a 0-RTT packet: a second request on its own stream (offset 0 behind a frame with offset > 0)
                o = soff.get((d, sid), 0)
                soff[(d, sid)] = o + nbytes
                last = i == len(fr) - 1 and rng.random() < 0.4
                out += Q.f_stream(sid, dta, off=(o if (o or rng.random() < 0.5) else None), fin=rng.random() < 0.2,
                                  with_len=not last, w=w)
                sdata += dta
            else:
                k = f["a"]
                if k == "ack":
                    out += Q.f_ack(rng.randint(0, 50), rng.randint(0, 300), rng.randint(0, 3), ranges=[(1, 1)] * rng.randint(0, 2),
                                   ecn=(1, 2, 3) if rng.random() < 0.2 else None, w=w)
                elif k == "ping":
                    out += Q.f_ping()
                elif k == "pad":
                    out += Q.f_padding(rng.randint(1, 30))
                elif k == "maxdata":
                    out += rng.choice([Q.f_max_data(1 << 20, w), Q.f_max_stream_data(4, 1 << 18, w), Q.f_max_streams(100, False, w),
                                       Q.f_data_blocked(5, w), Q.f_streams_blocked(7, True, w), Q.f_stop_sending(8, 3, w),
                                       Q.f_reset_stream(12, 1, 100, w), Q.f_retire_connection_id(0, w), Q.f_path_challenge(), Q.f_path_response()])
                elif k == "dgram":
                    out += Q.f_datagram(b"unreliable-datagram-payload", with_len=True, w=w)
                elif k == "ncid":
                    cid = c.g(len(c.cid[d]) or 8)
                    if p.get("ncid_extend"):       # the new CID has the current one as a proper prefix (allowed by RFC 9000)
                        cid = c.cid[d] + c.g(4)
                    c.issued[d].append(cid)
                    # Retire Prior To = this sequence number: the issuer asks the peer to stop using every earlier connection ID; the peer's
                    # packets already in flight (and whatever it sends before it has processed the frame) still carry the old one
                    out += Q.f_new_connection_id(cidseq[d], cidseq[d] if p.get("retire_prior") else 0, cid, w=w)
                    cidseq[d] += 1
                elif k == "done":
                    out += Q.f_handshake_done()
                elif k == "close":      # CONNECTION_CLOSE (transport or application variant); whatever the peer still had in flight keeps arriving behind it
                    out += Q.f_connection_close(rng.choice([0, 0x0A, 0x100]), rng.choice([None, 0, 0x1C]), rng.choice([b"", b"bye", b"idle timeout"]), w=w)
                elif k == "fin0":       # FIN-only STREAM frame: no data, offset = what the stream has carried so far
                    sid = rng.choice([0, 4, 8])
                    out += Q.f_stream(sid, b"", off=soff.get((d, sid), 0) or None, fin=True, with_len=rng.random() < 0.7 or i < len(fr) - 1, w=w)
                elif k == "nst" and d == "c":
                    out += Q.f_ping()   # (clients send no post-handshake CRYPTO data in QUIC v1 without client authentication)
                elif k == "nst":        # post-handshake CRYPTO data of the 1-RTT space (e.g. a NewSessionTicket), offsets continue per direction
                    body = hs_msg(4, c.g(rng.choice([40, 180])))
                    o = soff.get((d, "crypto1rtt"), 0)
                    soff[(d, "crypto1rtt")] = o + len(body)
                    out += Q.f_crypto(o, body, w=w)
        return out, sdata, cdata

    lvl = {"I": "i", "H": "h", "Z": "z", "A": "a"}
    # datagrams are BUILT in the order they were sent (packet numbers, CID switches, keys follow the sender) and then
    # arranged in the order they were captured (hist order); `sn` is the send sequence number
    send_order = sorted(range(len(b["hist"])), key=lambda i: b["hist"][i].get("sn", i + 1))
    built_at = {}
    for dgi in send_order:
        dg = b["hist"][dgi]
        built_at[dgi] = len(c.dgrams)
        d = dg["d"]
        if dg["pkts"][0]["t"] == "R":
            new_scid = c.g(p.get("s_cid_len", 8))
            c.token = c.g(16)
            c.raw("s", Q.retry_packet(c.odcid, c.cid["c"], new_scid, c.token), "RETRY")
            c.cid["s"] = new_scid
            c.retry_scid = new_scid
            c.dcid_now["c"] = new_scid
            c.init = Q.initial_keys(new_scid)
            continue
        if dg["pkts"][0]["t"] == "N":
            # noise: a well-formed 1-RTT packet of generation `gen` (so that the unmasked key-phase bit is gen & 1) whose tag is damaged;
            # the header-protection sample stays intact.  It takes no packet number away from the sender.
            import copy
            save = copy.deepcopy((c.pn[d], c.largest_seen[d]))
            raw, _m = c.pkt(d, "a", Q.f_ping() + Q.f_padding(24), gen=dg["pkts"][0]["gen"])
            c.pn[d], c.largest_seen[d] = save
            c.raw(d, raw[:-1] + bytes([raw[-1] ^ 0x5A]), "NOISE").packets = [_m]
            continue
        parts = []
        for pk in dg["pkts"]:
            fr, sd, cd = frames(pk, d)
            kw = {}
            if pk["t"] == "I" and d == "c" and any(f["ft"] == "crypto" for f in pk["frames"]):
                kw["pad_to"] = 1000 if b["zrtt"] else 1150
            if pk["t"] in ("I", "H", "Z") and p.get("len_width"):
                kw["len_width"] = p["len_width"]
            if p.get("grease_bit") and d == "s" and pk["t"] in ("H", "A") and rng.random() < 0.7:
                kw["fixed"] = 0         # the client announced grease_quic_bit: the server may clear the QUIC bit (run with -g)
            if pk["t"] == "A":
                kw["gen"] = pk["gen"]
                if p.get("pn_gaps") and rng.random() < 0.4:
                    kw["skip"] = rng.choice([1, 2, 5, 200, 70000]) if p.get("pn_gaps") == "big" else \
                        rng.choice([255, 65535, (1 << 24) + 3, (1 << 30) + 1, (1 << 31) - 7]) if p.get("pn_gaps") == "huge" else rng.choice([1, 2, 5])
                    if p.get("pn_gaps") == "huge":
                        kw["pnlen"] = 4
                # switch to a connection ID the peer issued with NEW_CONNECTION_ID
                o = "s" if d == "c" else "c"
                if p.get("cid_switch") and c.issued[o] and rng.random() < 0.5:
                    c.dcid_now[d] = c.issued[o][-1]
            parts.append((lvl[pk["t"]], fr, sd, cd, kw))
        first_server = d == "s" and dg["pkts"][0]["t"] == "I"
        c.send(d, parts)
        if first_server:
            c.dcid_now["c"] = c.cid["s"]
    c.dgrams = [c.dgrams[built_at[i]] for i in range(len(b["hist"]))]
    return c, payload


def run_quic(b, seed, params=None, opts=(), flow=None, trace=False, extra_dgrams=()):
    c, payload = build_conn(b, seed, params)
    fl = flow or mk_flow(0, ipv=(params or {}).get("ipv", 4), sport=(params or {}).get("sport", 443),
                         cport=((params or {}).get("sport", 443) if (params or {}).get("same_ports") and (params or {}).get("sport", 443) not in (443, 44330) else None))
    # (both endpoints may use the same port number -- unless it is a watched server port: then the ports cannot tell who the server is)
    if (params or {}).get("dup_dgrams"):        # the network (or a capture on two interfaces) duplicates datagrams byte for byte
        rng = random.Random(seed + 99)
        out = []
        for g in c.dgrams:
            out.append(g)
            if g.stream and rng.random() < 0.5:
                out.append(g)
        c.dgrams = out
    from wire import l2l4 as _l
    _l.VARIATION.clear()
    _l.VARIATION.update((params or {}).get("l2") or {})
    try:
        mig = (params or {}).get("migrate_at")      # NAT rebinding: from the k-th datagram on the client is seen under another port (same CIDs)
        fl2 = fl
        if mig is not None and len(c.cid["c"]) > 0 and len(c.cid["s"]) > 0:      # (with a zero-length CID on either side the datagrams towards it carry nothing a passive observer could match after the rebinding)
            from wire.l2l4 import Endpoint, Flow
            fl2 = Flow(Endpoint(fl.client.mac, fl.client.ip, fl.client.port + 7), fl.server)
        cap = udp_capture([((fl2 if mig is not None and i >= mig and g.packets and all(m["level"] == "a" for m in g.packets) else fl), g.d, g.payload, g)
                           for i, g in enumerate(c.dgrams)], cap=Capture(ts0=(0 if (params or {}).get("ts_zero") else 1_700_000_000_000_000 + seed % 999_983), step=(params or {}).get("ts_step") or 1009))
    finally:
        _l.VARIATION.clear()
    if (params or {}).get("ts_equal"):      # a coarse capture clock: a datagram may carry exactly the time of the previous one when that one travelled
        rq = random.Random(seed + 41)       # in the OTHER direction (same-direction datagrams with equal times may be merged: C02's caveat)
        chained = False
        for i in range(1, len(cap.pkts)):       # (never three in a row: the third would share its time with a datagram of its own direction)
            if not chained and c.dgrams[i].d != c.dgrams[i - 1].d and rq.random() < 0.5:
                cap.pkts[i] = (cap.pkts[i - 1][0], cap.pkts[i][1])
                chained = True
            else:
                chained = False
    pk = list(cap.pkts)
    if (params or {}).get("own_noise"):
        # datagrams on the connection's own 4-tuple that belong to no packet-number space: Version Negotiation (before and after the
        # handshake), a long header of an unknown version, a too short datagram.  None carries anything exportable without -a.
        import struct
        from wire.l2l4 import udp_frame as _uf
        rn = random.Random(seed + 77)
        vn = lambda: bytes([0x80 | rn.getrandbits(7)]) + b"\x00\x00\x00\x00" + bytes([len(c.cid["c"])]) + c.cid["c"] + bytes([len(c.odcid)]) + c.odcid + struct.pack("!II", 0x6B3343CF, 1)
        other = lambda: bytes([0xC0 | rn.getrandbits(4)]) + struct.pack("!I", 0x6B3343CF) + bytes([8]) + bytes(rn.getrandbits(8) for _ in range(8)) + b"\x00\x00\x40\x10" + bytes(16)
        # (not between a Retry and the client's next Initial: the session takes its new Initial keys from the first long-header datagram it
        #  sees after the Retry -- a stray datagram there costs the connection; observed, outside the listed properties)
        retry_at = [i for i, g in enumerate(c.dgrams) if g.note == "RETRY"]
        ok_pos = [k for k in range(1, len(pk) + 1) if not (retry_at and k == retry_at[0] + 1)]
        runt_s = lambda: bytes([0x40 | rn.getrandbits(6)]) + bytes(rn.getrandbits(8) for _ in range(len(c.cid["c"]) + rn.choice([5, 12, 17, 19])))
        runt_c = lambda: bytes([0x40 | rn.getrandbits(6)]) + bytes(rn.getrandbits(8) for _ in range(len(c.cid["s"]) + rn.choice([4, 9, 18, 20])))
        # (runts with a short header: too short for a full header-protection sample -- DCID + 4 + 16 bytes -- or just long enough)
        members = [("s", vn), ("s", vn), ("c", other), ("c", lambda: bytes([0x40, 1, 2]))]
        if (params or {}).get("own_noise") == "runts":      # random short-header runts unmask to a random key phase: half of them are the
            members += [("s", runt_s), ("c", runt_c)]       # documented deviation "noise with the other phase" -- only for checks that do not judge content
        ins = sorted(((rn.choice(ok_pos), d, mk) for d, mk in members), key=lambda x: -x[0])
        for k, d, mk in ins:
            pk.insert(k, (cap.pkts[k - 1][0] + 3, _uf(fl, d, mk())))
    sub = (params or {}).get("ts_sub")
    if sub:     # a burst in a nanosecond-resolution capture: consecutive datagrams `sub` ns apart (>= 500: the reader's float keeps about 240 ns today)
        t0n = pk[0][0] * 1000
        data = pcapng_bytes([((t0n + i * sub, 10 ** 9), fr) for i, (_t, fr) in enumerate(pk)], tsresol=9)
    else:
        data = pcapng_bytes(pk)
    res = runner.run_inproc(data, "\n".join(c.keylog) + "\n", opts=list(opts), trace=trace, stale_out=(params or {}).get("stale_out"))
    return c, payload, fl, cap, res


def observed_dgrams(res, fl, opts=(), quic_port_default=None):
    """[(dir, ts, payload)] of the connection's output datagrams (non-empty), plus observer problems"""
    if res.out is None:
        return None, ["no output file"]
    o = Observation(res.out)
    sp = out_port(fl.server.port, list(opts))
    return [(d, ts, pl) for d, ts, pl, _sm, _dm in o.udp_dgrams(fl.client.ip, fl.client.port, fl.server.ip, sp)], o.problems
