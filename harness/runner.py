"""Runs the *current working tree* of /repo (never an installed copy or a snapshot) on a concrete capture."""
import contextlib
import io
import json
import os
import shutil
import subprocess
import sys
import tempfile
import traceback

REPO = os.environ.get("VERIF_REPO", "/repo")
GUARD = "TLEXPORT_VERIF"
PY = "/venv/bin/python"

sys.dont_write_bytecode = True
if REPO not in sys.path:
    sys.path.insert(0, REPO)

_SCRATCH = None


def scratch():
    """per-process scratch directory outside /repo and /verif, removed at exit"""
    global _SCRATCH
    if _SCRATCH is None or not os.path.isdir(_SCRATCH) or _SCRATCH_PID != os.getpid():
        _mk()
    return _SCRATCH


def _mk():
    """The top-level process of a check owns ONE root directory (named after its pid, removed at its exit); every worker process forked from it
    (multiprocessing pools do not run atexit handlers) and every subprocess makes its own directory inside that root."""
    global _SCRATCH, _SCRATCH_PID
    import atexit
    root = os.environ.get("VERIF_SCRATCH_ROOT")
    if not root or not os.path.isdir(root):
        base = os.environ.get("VERIF_SCRATCH") or tempfile.gettempdir()
        _sweep(base)
        root = tempfile.mkdtemp(prefix="tlxr_%d_" % os.getpid(), dir=base)
        os.environ["VERIF_SCRATCH_ROOT"] = root
        pid = os.getpid()
        atexit.register(lambda: os.getpid() == pid and shutil.rmtree(root, ignore_errors=True))
    _SCRATCH = tempfile.mkdtemp(prefix="w%d_" % os.getpid(), dir=root)
    _SCRATCH_PID = os.getpid()


def _sweep(base):
    """remove roots left behind by check processes that no longer exist (killed by a timeout, for instance)"""
    try:
        for n in os.listdir(base):
            if n.startswith("tlxr_"):
                parts = n.split("_")
                if len(parts) >= 3 and parts[1].isdigit() and not os.path.exists("/proc/%s" % parts[1]):
                    shutil.rmtree(os.path.join(base, n), ignore_errors=True)
    except OSError:
        pass


_SCRATCH_PID = None


class Result:
    __slots__ = ("out", "exc", "exit", "stdout", "events", "argv")

    def __init__(self):
        self.out = None       # bytes of the output file or None
        self.exc = None       # traceback text if run() raised
        self.exit = None      # SystemExit code if any
        self.stdout = ""
        self.events = []      # hook events (dicts) when tracing
        self.argv = []

    @property
    def crashed(self):
        return self.exc is not None


def reset_module_state():
    """what a fresh process would start with (the harness isolates runs; C18 checks the un-reset case itself)"""
    import tlexport.main as m
    m.server_ports[:] = [443, 44330]
    m.keylog.clear()
    m.sessions.clear()
    m.quic_sessions.clear()


RUN_LIMIT = float(os.environ.get("VERIF_RUN_LIMIT", "180"))      # seconds per in-process run (typical runs take 10-500 ms)


class RunTimeout(BaseException):
    pass


def _watchdog(*_a):
    raise RunTimeout(f"run() did not terminate within {RUN_LIMIT:.0f} s")


def run_inproc(capture: bytes, keylog_text=None, opts=(), legacy=False, trace=False, reset=True, infile_name=None,
               keep_files=False, stale_out=None):
    """opts: extra CLI arguments.  keylog_text None => no -s option is passed."""
    import logging
    import tlexport.main as m
    d = scratch()
    inf = os.path.join(d, infile_name or ("in.pcap" if legacy else "in.pcapng"))
    outf = os.path.join(d, "out.pcapng")
    with open(inf, "wb") as f:
        f.write(capture)
    if os.path.exists(outf):
        os.unlink(outf)
    if stale_out or (stale_out is None and os.environ.get("VERIF_STALE_OUT")):
        # the output path already holds a (longer) file of an earlier export: it must be replaced, not patched in place
        with open(outf, "wb") as f:
            f.write(b"\x0a\x0d\x0d\x0a" + bytes(range(256)) * 2000)
    argv = ["tlexport", "-i", inf, "-o", outf]
    if keylog_text is not None:
        kf = os.path.join(d, "keys.log")
        with open(kf, "w", newline="", encoding="utf-8") as f:
            f.write(keylog_text)
        argv += ["-s", kf]
    if legacy:
        argv += ["-l"]
    argv += list(opts)
    res = Result()
    res.argv = argv[1:]
    if reset:
        reset_module_state()
    tf = os.path.join(d, "trace.ndjson")
    if trace:
        if os.path.exists(tf):
            os.unlink(tf)
        os.environ[GUARD] = tf
    else:
        os.environ.pop(GUARD, None)
    old_argv = sys.argv
    sys.argv = argv
    buf = io.StringIO()
    root = logging.getLogger()
    # watchdog: a run that does not terminate (e.g. a parser loop) must become a verdict, never a hanging check
    import signal
    import threading
    armed = threading.current_thread() is threading.main_thread() and signal.getsignal(signal.SIGALRM) in (signal.SIG_DFL, None, _watchdog)
    if armed:
        signal.signal(signal.SIGALRM, _watchdog)
        signal.setitimer(signal.ITIMER_REAL, RUN_LIMIT)
    try:
        with contextlib.redirect_stdout(buf), contextlib.redirect_stderr(buf):
            m.run()
    except SystemExit as e:
        res.exit = e.code if e.code is not None else 0
    except BaseException:
        res.exc = traceback.format_exc()
    finally:
        if armed:
            signal.setitimer(signal.ITIMER_REAL, 0)
        sys.argv = old_argv
        for h in list(root.handlers):
            root.removeHandler(h)
        os.environ.pop(GUARD, None)
    res.stdout = buf.getvalue()
    if os.path.exists(outf):
        with open(outf, "rb") as f:
            res.out = f.read()
    if trace and os.path.exists(tf):
        with open(tf) as f:
            for line in f:
                line = line.strip()
                if line:
                    res.events.append(json.loads(line))
    return res


def run_subprocess(capture: bytes, keylog_text=None, opts=(), legacy=False, cwd=None, env_extra=None, hashseed=None,
                   timeout=120):
    d = tempfile.mkdtemp(prefix="tlxs_", dir=scratch())
    inf = os.path.join(d, "in.pcap" if legacy else "in.pcapng")
    outf = os.path.join(d, "out.pcapng")
    with open(inf, "wb") as f:
        f.write(capture)
    argv = [PY, "-B", "-m", "tlexport.main", "-i", inf, "-o", outf]
    if keylog_text is not None:
        kf = os.path.join(d, "keys.log")
        with open(kf, "w", newline="", encoding="utf-8") as f:
            f.write(keylog_text)
        argv += ["-s", kf]
    if legacy:
        argv += ["-l"]
    argv += list(opts)
    env = {"PATH": os.environ.get("PATH", "/usr/bin:/bin"), "PYTHONPATH": REPO, "PYTHONDONTWRITEBYTECODE": "1"}
    if hashseed is not None:
        env["PYTHONHASHSEED"] = str(hashseed)
    env.update(env_extra or {})
    res = Result()
    res.argv = argv[4:]
    try:
        p = subprocess.run(argv, cwd=cwd or d, env=env, capture_output=True, text=True, timeout=timeout)
        res.exit = p.returncode
        res.stdout = p.stdout + p.stderr
        if p.returncode != 0 and "Traceback" in p.stderr:
            res.exc = p.stderr[-2000:]
    except subprocess.TimeoutExpired:
        res.exc = "timeout"
    if os.path.exists(outf):
        with open(outf, "rb") as f:
            res.out = f.read()
    shutil.rmtree(d, ignore_errors=True)
    return res
