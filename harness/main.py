"""entry point: ./check <id> [--tier quick|thorough] [--replay path]
exit 0 = property held on everything explored; 1 = VIOLATION line(s) printed; 2 = machinery failure"""
import argparse
import importlib
import os
import sys
import traceback

from .core import Check, MachineryError


def main():
    ap = argparse.ArgumentParser()
    ap.add_argument("pid")
    ap.add_argument("--tier", default=os.environ.get("VERIF_TIER", "quick"), choices=["quick", "thorough"])
    ap.add_argument("--replay")
    a = ap.parse_args()
    seed = int(os.environ.get("VERIF_SEED", "1") or 1)
    pid = a.pid.upper()
    try:
        mod = importlib.import_module(f"checks.{pid.lower()}")
    except ModuleNotFoundError:
        print(f"no check for {pid}")
        return 2
    chk = Check(pid, a.tier, seed)
    try:
        if a.replay:
            return mod.replay(chk, a.replay)
        mod.run(chk)
        return chk.finish()
    except MachineryError as e:
        print(f"MACHINERY-FAILURE {pid}: {e}")
        return 2
    except Exception:
        traceback.print_exc()
        print(f"MACHINERY-FAILURE {pid}: unexpected exception in the harness")
        return 2


if __name__ == "__main__":
    sys.exit(main())
