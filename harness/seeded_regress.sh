#!/bin/sh
# seeded_regress.sh [seeded dirs...]
# Applies every seeded change under seeded/ (default: all) to the repository at $VERIF_REPO (default /repo), runs the quick check of
# the property it was seeded for, and restores the tree.  Prints one line per change: "<id> property=<Cxx> exit=<rc> violations=<n>".
# Expected: exit=1 everywhere.  Meant to be run from a snapshot (`vp run --with-repo -- env VERIF_REPO=$VP_RUN_REPO sh harness/seeded_regress.sh`)
# so that /repo itself is never touched.
R=${VERIF_REPO:-/repo}
V=$(cd "$(dirname "$0")/.." && pwd)
[ -z "$(git -C "$R" status --porcelain)" ] || { echo "REPO NOT CLEAN: $R"; exit 2; }
log=$(mktemp)
trap 'git -C "$R" checkout -- . >/dev/null 2>&1; rm -f "$log"' EXIT INT TERM
[ $# -gt 0 ] || set -- "$V"/seeded/*
miss=0
for d in "$@"; do
  id=$(basename "$d"); p=${id%%-*}
  git -C "$R" apply "$d/patch.diff" 2>/dev/null || { echo "$id property=$p PATCH-DOES-NOT-APPLY"; continue; }
  (cd "$V" && VERIF_REPO="$R" ./check "$p" --tier quick >"$log" 2>&1); rc=$?
  git -C "$R" checkout -- .
  echo "$id property=$p exit=$rc violations=$(grep -c '^VIOLATION' "$log")"
  [ "$rc" = 1 ] || miss=$((miss+1))
  rm -rf "$V/replays/violations"
done
echo "not caught: $miss"
