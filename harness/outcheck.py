"""Projects an observed output conversation and the harness' ground truth into a TraceTcpOut trace."""
from .tracecheck import batch
from .tlsrun import out_port


def out_trace(cap, conns, flows, o, opts=(), exported=None, true_ns=None):
    """one trace per connection: recs = exported application records (direction, plaintext length, indices of the
    input packets that carried bytes of the record), pkts = observed packets of the conversation."""
    ts_index = {}
    for i, (ts, _fr) in enumerate(cap.pkts):
        ts_index.setdefault(ts, i)
    traces = []
    for ci, (c, f) in enumerate(zip(conns, flows)):
        recs = []
        for r in c.records:
            if r.kind != "APP":
                continue
            if exported is not None and r.idx not in exported[ci]:
                continue
            cars = sorted({i for i, m in enumerate(cap.meta) if m is not None and getattr(m, "conn", None) == ci
                           and r.idx in m.recs and not m.dup})
            recs.append(dict(d=r.d, n=len(r.plain), cars=cars))
        key = None
        for k, cv in o.convs.items():
            if cv["client"] == (f.client.ip, f.client.port) and cv["server"] == (f.server.ip, out_port(f.server.port, list(opts))):
                key = k
        pkts = []
        if key is not None:
            cl = (f.client.ip, f.client.port)
            for i in o.tcp[key]:
                fl = {2: "S", 18: "SA", 16: "A", 24: "PA"}.get(i["flags"], "X%d" % i["flags"])
                us = i["ts"] * 10 ** 6
                tsi = ts_index.get(int(us), -1) if us.denominator == 1 else -1
                if true_ns is not None:     # finer input resolution: preserved to < 1 microsecond
                    tsi = -1
                    for cand in (int(us) - 1, int(us), int(us) + 1):
                        j = ts_index.get(cand, -1)
                        if j >= 0 and abs(i["ts"] * 10 ** 9 - true_ns[j]) < 1000:
                            tsi = j
                pkts.append(dict(d="c" if (i["src"], i["sport"]) == cl else "s", fl=fl, seq=i["seq"], ack=i["ack"],
                                 len=len(i["payload"]), ts=tsi))
        traces.append(dict(recs=recs, pkts=pkts))
    return traces


def validate_out(chk, traces):
    if not traces:
        return
    clean = []
    for n, t in enumerate(traces):
        per = {d: [dict(n=r["n"], cars=r["cars"]) for r in t["recs"] if r["d"] == d] for d in "cs"}
        clean.append(dict(id=n + 1, recs=per, pkts=t["pkts"]))
    acc, prog, r = batch("TraceTcpOut", clean)
    chk.tlc("TraceTcpOut batch", r)
    chk.traces_validated += len(clean)
    for t, c in zip(traces, clean):
        if c["id"] not in acc:
            p = prog[c["id"] - 1]
            ev = c["pkts"][p - 1] if 0 < p <= len(c["pkts"]) else "end of conversation: not every exported record is complete"
            chk.violation(f"output conversation rejected by the TcpOut contract at packet {p}: {ev}",
                          dict(first_unmatched_packet=p, packet=ev, records=c["recs"], packets=c["pkts"][:p + 3], scenario=t.get("_sc")))
