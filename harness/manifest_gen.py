"""Regenerates MANIFEST.json from the table below (run by hand when a check is added)."""
import json, os, subprocess
V = os.path.dirname(os.path.dirname(os.path.abspath(__file__)))
HOOK_COMMITS = subprocess.run(["git", "-C", "/repo", "log", "--format=%H", "--grep=^verif hooks"], capture_output=True, text=True).stdout.split()
CHECKS = {
 "C05": dict(text="TLC checks exhaustively (small constants: all cut sets of 2-4 record streams, <=2 held segments, <=2 exact duplicates, every ISN/wrap position of a scaled sequence space) that the implementation-shaped reassembly model (Reasm.tla: dedupe, sort, contiguity test, two-pass framing as in session.py) satisfies the contract (records handed on in stream order, each once, all at quiescence, provenance = overlap set) when the two named deviations are disabled, and that each deviation violates it. TLC-generated schedules are replayed on real TLS connections of 8 cipher-state kinds through the working tree (end-to-end streams must equal what was sent) and the feed/release hook events of every run are validated against the contract in TLC (TraceReasm.tla).",
             note="Trusted: the reference TLS stack in /verif/wire (independent of tlexport; agrees with the unchanged tree on every suite x version), the observer in /verif/observe, TLC. Bounds: streams of <= 4 records per schedule, MaxSeg <= 8 cells, scaled modulus for the wrap. Known findings KF_GapAccept / KF_SeqWrap are excluded from the environment by predicate and replayed as witnesses.",
             technique="TLA+ model checking (TLC) of Reasm.tla + replay of TLC behaviours into the implementation + TLC trace validation of hook events", ref="6-C05"),
 "C01": dict(text="TLC checks exhaustively that the implementation-shaped session automaton (TlsSession.tla: ClientHello/ServerHello/CCS/Finished handling, generate_keys gates, per-direction AEAD sequence number / CBC residue / RC4 position / TLS 1.3 key switch exactly as coded) exports exactly the application records sent, for 5 versions x 4 cipher families x full/abbreviated x grouping x hs-secrets-in-log x padding x tickets x every history of <= 4 application records (direction order, 4 length classes). TLC-generated behaviours are concretized with concrete suites (quick: 3 per (version, family); thorough: every valid (version, suite) pair), session-id lengths, extension sets, extension-shaped certificate bytes, CBC padding lengths and segmentations, run through the working tree and compared with the model's prediction; decrypt/keyswitch hook events of every run are validated in TLC against the record-layer contract (TraceTls.tla: each success consumes the next record under the sender's epoch/sequence number/CBC residue and yields its plaintext).",
             note="Trusted: reference TLS stack in /verif/wire (RFC vectors, agreement with the unchanged tree), observer, TLC. Not claimed (as in the property): compression, renegotiation, KeyUpdate, 0-RTT, HRR, data after alert, 4-tuple reuse. Camellia-GCM suites are not in TLExport's table and not exercised.",
             technique="TLA+ model checking (TLC) of TlsSession.tla + replay of TLC behaviours into the implementation + TLC trace validation of decrypt events", ref="6-C01"),
 "C06": dict(text="TLC checks exhaustively (n in 0..12 bytes, k in 1..5 carriers, <= 3 records in any direction order) that the implementation-shaped model of OutputBuilder (TcpOut.tla: floor(n/k) split, remainder, two counters, handshake at the first record) satisfies the contract HandshakeFirst / GapFree / AcksConsistent / RecordSplit (<= k segments adding up to n) / SilentWhenEmpty. TLC-emitted record sequences are realised as TLS connections (8 cipher kinds, IPv4/IPv6, with -m/-a) whose records are carried by exactly k segments; the working tree's output file is parsed by an independent strict pcapng reader, frame/length/checksum validator and TCP reassembler, and every observed conversation is validated in TLC against the contract (TraceTcpOut.tla) using the harness' ground truth.",
             note="Trusted: observer in /verif/observe (pcapng draft, RFC 791/8200/793/768/1071), reference TLS stack, TLC. The output of every other check's runs is passed through the same observer. QUIC/UDP output and the empty-session placeholder are covered once the QUIC generator is attached (see DESIGN).",
             technique="TLA+ model checking (TLC) of TcpOut.tla + replay of TLC behaviours + TLC validation of observed output conversations (the output file is the trace)", ref="6-C06"),
 "C07": dict(text="TLC checks MetaIsOverlapSet on Reasm.tla (provenance of every released record = the captured segments overlapping it, for all cut sets / reorderings / duplicates) and RecordSplit / HandshakeTime on TcpOut.tla (part i stamped by carrier i, handshake stamped by the first record's first carrier). Schedules and [d,n,k] sequences from both models are realised with random MAC/IP/port values, IPv4 and IPv6 and timestamp spacings from 1 us to > 1 s (a third under nanosecond resolution); the observer compares endpoints, IP version and orientation with ground truth and every observed conversation is validated in TLC against TraceTcpOut (each data packet's time must be the time of an input packet that carried bytes of that very record; < 1 us under finer resolution); feed/release hook events are validated against TraceReasm (exact provenance sets).",
             note="Trusted: observer, reference stack, TLC. A duplicate's timestamp is not accepted as provenance (first capture counts). QUIC datagram times/directions are covered by C02's datagram comparison.",
             technique="TLA+ model checking (TLC) of Reasm.tla/TcpOut.tla + replay + TLC trace validation (TraceTcpOut, TraceReasm)", ref="6-C07"),
 "C08": dict(text="ExportMonotone (TlsSession.tla) and ReleaseMonotone/ReleasedIsPrefix (Reasm.tla) are checked by TLC as action properties/invariants: every state of the graph is the cut-at-k run, so all cut positions of all behaviours are covered at once. For sampled TLC behaviours (all versions/families/handshake shapes, seeded segmentations, reordered/duplicated flights) every cut 0..N of the concrete capture is a separate run of the working tree; per direction the exports must form a chain of prefixes that ends in the data sent; hook traces of cut runs are validated against the record-layer contract (incomplete traces allowed).",
             note="Trusted: as C01/C05. Cut positions: all for captures of <= 60 packets, every second one above.",
             technique="TLA+ action properties checked by TLC + exhaustive cut-point replay of TLC behaviours + TLC trace validation", ref="6-C08"),
 "C13": dict(text="TlsSession.tla carries what the -a branches append (metaOut) next to `exported`; TLC checks MetaOnlyAdds (application entries identical, same order) and HellosExported over all worlds and histories. Every generated behaviour is run twice through the working tree on the same capture (with and without -a): the payload-carrying packet sequence without -a must be a subsequence of the one with -a, ClientHello/ServerHello records must appear verbatim, outputs must stay well-formed.",
             note="Trusted: as C01. QUIC stream data under -a is compared by C02's generator.",
             technique="TLA+ model checking (TLC) of TlsSession.tla (product of both option values) + differential replay of TLC behaviours", ref="6-C13"),
}
NA_REASON = "check not built yet in this round (planned: see DESIGN.md section 6)"
def main():
    props = [json.loads(l)["id"] for l in open(os.path.join(V, "properties.jsonl"))]
    m = dict(version=1,
             setup_cmd="./setup.sh",
             hooks=dict(guard="TLEXPORT_VERIF", enable="environment variable TLEXPORT_VERIF=<trace file> at run time (pure Python, nothing to rebuild); checks import tlexport from /repo's working tree",
                        baseline_off_cmd="cd /repo && /venv/bin/python -m pytest -ra -q -p no:cacheprovider --timeout=900 --continue-on-collection-errors",
                        source_commits=HOOK_COMMITS[::-1], add_only=True),
             engines=[dict(name="tlc", path="/opt/veriftools/tla/tla2tools.jar", serves_properties=sorted(CHECKS), kind_free_text="explicit-state model checker for the TLA+ specs in /verif/spec (exhaustive, -simulate behaviour generation, batch trace validation)"),
                      dict(name="harness", path="/verif/check", serves_properties=sorted(CHECKS), kind_free_text="concretizer (/verif/wire), in-process runner of /repo's working tree, independent observer (/verif/observe)")],
             checks=[], notes="see DESIGN.md; known findings in known_findings.json", not_applicable=[])
    for p in props:
        if p in CHECKS:
            c = CHECKS[p]
            m["checks"].append(dict(property_id=p, quick_cmd=f"./check {p} --tier quick", thorough_cmd=f"./check {p} --tier thorough",
                                    evidence_file=f"/verif/evidence/{p}.json", replay_cmd_template=f"./check {p} --replay {{path}}", engine="tlc",
                                    level_claimed=dict(category=c.get("cat", "model_checking"), text=c["text"], design_ref=c["ref"]),
                                    level_note=c["note"], technique=c["technique"]))
        else:
            m["not_applicable"].append(dict(property_id=p, reason=NA.get(p, NA_REASON)))
    json.dump(m, open(os.path.join(V, "MANIFEST.json"), "w"), indent=1)
NA = {}
if __name__ == "__main__":
    main()
