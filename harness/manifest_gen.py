"""Regenerates MANIFEST.json from the table below (run by hand when a check is added)."""
import json, os, subprocess
V = os.path.dirname(os.path.dirname(os.path.abspath(__file__)))
HOOK_COMMITS = subprocess.run(["git", "-C", "/repo", "log", "--format=%H", "--grep=^verif hooks"], capture_output=True, text=True).stdout.split()
CHECKS = {
 "C05": dict(text="TLC checks exhaustively (small constants: all cut sets of 2-4 record streams, <=2 held segments, <=2 exact duplicates, every ISN/wrap position of a scaled sequence space) that the implementation-shaped reassembly model (Reasm.tla: dedupe, sort, contiguity test, two-pass framing as in session.py) satisfies the contract (records handed on in stream order, each once, all at quiescence, provenance = overlap set) when the two named deviations are disabled, and that each deviation violates it. TLC-generated schedules are replayed on real TLS connections of 8 cipher-state kinds through the working tree (end-to-end streams must equal what was sent) and the feed/release hook events of every run are validated against the contract in TLC (TraceReasm.tla).",
             note="Trusted: the reference TLS stack in /verif/wire (independent of tlexport; agrees with the unchanged tree on every suite x version), the observer in /verif/observe, TLC. Bounds: streams of <= 4 records per schedule, MaxSeg <= 8 cells, scaled modulus for the wrap. Known findings KF_GapAccept / KF_SeqWrap are excluded from the environment by predicate and replayed as witnesses.",
             technique="TLA+ model checking (TLC) of Reasm.tla + replay of TLC behaviours into the implementation + TLC trace validation of hook events", ref="6-C05"),
 "C01": dict(text="TLC checks exhaustively that the implementation-shaped session automaton (TlsSession.tla: ClientHello/ServerHello/CCS/Finished handling, generate_keys gates, per-direction AEAD sequence number / CBC residue / RC4 position / TLS 1.3 key switch exactly as coded) exports exactly the application records sent, for 5 versions x 4 cipher families x full/abbreviated x grouping x hs-secrets-in-log x padding x tickets x every history of <= 4 application records (direction order, 4 length classes). TLC-generated behaviours are concretized with concrete suites (quick: 3 per (version, family); thorough: every valid (version, suite) pair), session-id lengths, extension sets, extension-shaped certificate bytes, CBC padding lengths and segmentations, run through the working tree and compared with the model's prediction; decrypt/keyswitch hook events of every run are validated in TLC against the record-layer contract (TraceTls.tla: each success consumes the next record under the sender's epoch/sequence number/CBC residue and yields its plaintext).",
             note="Trusted: reference TLS stack in /verif/wire (RFC vectors, agreement with the unchanged tree), observer, TLC. Not claimed (as in the property): compression, renegotiation, KeyUpdate, 0-RTT, HRR, data after alert, 4-tuple reuse. Camellia-GCM suites are not in TLExport's table and not exercised.",
             technique="TLA+ model checking (TLC) of TlsSession.tla + replay of TLC behaviours into the implementation + TLC trace validation of decrypt events", ref="6-C01"),
}
NA_REASON = "check not built yet in this round (planned: see DESIGN.md section 6)"
def main():
    props = [json.loads(l)["id"] for l in open(os.path.join(V, "properties.jsonl"))]
    m = dict(version=1,
             setup_cmd="./setup.sh",
             hooks=dict(guard="TLEXPORT_VERIF", enable="environment variable TLEXPORT_VERIF=<trace file> at run time (pure Python, nothing to rebuild); checks import tlexport from /repo's working tree",
                        baseline_off_cmd="cd /repo && /venv/bin/python -m pytest -ra -q -p no:cacheprovider --timeout=900 --continue-on-collection-errors",
                        source_commits=HOOK_COMMITS[::-1], add_only=True),
             engines=[dict(name="tlc", path="/opt/veriftools/tla/tla2tools.jar", serves_properties=sorted(CHECKS), kind_free_text="explicit-state model checker for the TLA+ specs in /verif/spec (exhaustive, -simulate behaviour generation, batch trace validation)"),
                      dict(name="harness", path="/verif/check", serves_properties=sorted(CHECKS), kind_free_text="concretizer (/verif/wire), in-process runner of /repo's working tree, independent observer (/verif/observe)")],
             checks=[], notes="see DESIGN.md; known findings in known_findings.json", not_applicable=[])
    for p in props:
        if p in CHECKS:
            c = CHECKS[p]
            m["checks"].append(dict(property_id=p, quick_cmd=f"./check {p} --tier quick", thorough_cmd=f"./check {p} --tier thorough",
                                    evidence_file=f"/verif/evidence/{p}.json", replay_cmd_template=f"./check {p} --replay {{path}}", engine="tlc",
                                    level_claimed=dict(category=c.get("cat", "model_checking"), text=c["text"], design_ref=c["ref"]),
                                    level_note=c["note"], technique=c["technique"]))
        else:
            m["not_applicable"].append(dict(property_id=p, reason=NA.get(p, NA_REASON)))
    json.dump(m, open(os.path.join(V, "MANIFEST.json"), "w"), indent=1)
NA = {}
if __name__ == "__main__":
    main()
