------------------------------- MODULE Demux -------------------------------
(***************************************************************************)
(* Connection matching in the run loop (tlexport/main.py handle_packet,     *)
(* handle_quic_packet; Session.matches_session; QuicSession.packet_isserver *)
(* and the CID learning in handle_quic_packet of the session).              *)
(*                                                                          *)
(* Environment: N connections (TLS or QUIC) whose packet sequences are      *)
(* merged in EVERY order-preserving way (action Deliver picks the           *)
(* connection whose next packet is captured next).  Endpoint patterns are   *)
(* given by the constant Conns: shared hosts, shared client ports,          *)
(* connection-ID lengths including 0, prefix-related CIDs, a client that    *)
(* migrates to a new address, CIDs issued later by NEW_CONNECTION_ID.       *)
(* Iteration over a Python set (client_cids | server_cids) is modelled as   *)
(* an explicit nondeterministic choice.                                     *)
(*                                                                          *)
(* Repaired = TRUE models the matching after the fix (4-tuple first;        *)
(* direction from the addresses; CID candidates restricted to the           *)
(* receiver's side, longest match; CID-only matching - non-empty CIDs,      *)
(* longest match over all sessions - for packets from an unknown 4-tuple).  *)
(* Repaired = FALSE is the original code and documents the counterexamples. *)
(***************************************************************************)
EXTENDS Naturals, Sequences, FiniteSets, SequencesExt, FiniteSetsExt, TLC, Json

CONSTANTS Conns,       \* sequence of [proto, c, s, c2, odcid, ccid, scid, ncid]  (addresses <<host, port>>, CIDs = sequences of bytes)
          Repaired,
          ServerPorts,
          Late         \* QUIC connections whose handshake lies BEFORE the capture start: only their short-header packets (4..6) are captured.
                       \* They get no session; their packets must reach no other connection's session either.

N == Len(Conns)
IsPrefixOf(a, b) == Len(a) <= Len(b) /\ SubSeq(b, 1, Len(a)) = a

(* packets of a connection, in the order its endpoints send them *)
\* [conn, d, src, dst, long, dcid (the real one), scid, learn (cid learnt by an Initial / NEW_CONNECTION_ID), tail]
\* tail = the bytes following the first byte of a short-header packet (real DCID followed by protected bytes)
PK(i, d, src, dst, long, dcid, scid, ncid) ==
  [conn |-> i, d |-> d, src |-> src, dst |-> dst, long |-> long, dcid |-> dcid, scid |-> scid, ncid |-> ncid,
   tail |-> dcid \o <<9, 9, 9>>]
Script(i) ==
  LET C == Conns[i] IN
  IF C.proto = "tls"
  THEN << PK(i, "c", C.c, C.s, FALSE, <<>>, <<>>, <<>>), PK(i, "s", C.s, C.c, FALSE, <<>>, <<>>, <<>>),
          PK(i, "c", C.c, C.s, FALSE, <<>>, <<>>, <<>>), PK(i, "s", C.s, C.c, FALSE, <<>>, <<>>, <<>>) >>
  ELSE << PK(i, "c", C.c, C.s, TRUE, C.odcid, C.ccid, <<>>),                 \* client Initial
          PK(i, "s", C.s, C.c, TRUE, C.ccid, C.scid, <<>>),                  \* server Initial
          PK(i, "c", C.c, C.s, FALSE, C.scid, <<>>, <<>>),                   \* client 1-RTT
          PK(i, "s", C.s, C.c, FALSE, C.ccid, <<>>, C.ncid),                 \* server 1-RTT carrying NEW_CONNECTION_ID
          PK(i, "c", C.c2, C.s, FALSE, IF C.ncid # <<>> THEN C.ncid ELSE C.scid, <<>>, <<>>),   \* client 1-RTT, possibly migrated / new CID
          PK(i, "s", C.s, C.c2, FALSE, C.ccid, <<>>, <<>>) >>

VARIABLES pos,         \* per connection: packets captured so far
          sessions,    \* sequence of [proto, c, s, ccids, scids, conn (ghost: creator)]
          delivered,   \* per session: sequence of [conn, k, isserver, cid]
          dropped,     \* packets no session took: set of <<conn, k>>
          order        \* history: the merge (connection index of every captured packet)
vars == <<pos, sessions, delivered, dropped, order>>

(* ---------------- the code ---------------- *)
AddrMatch(S, p) == (p.src = S.s /\ p.dst = S.c) \/ (p.src = S.c /\ p.dst = S.s)

\* TLS: first session in list order whose 4-tuple matches, else a new one if a server port is involved
TlsTarget(p) == LET ms == { j \in 1..Len(sessions) : sessions[j].proto = "tls" /\ AddrMatch(sessions[j], p) }
                IN IF ms # {} THEN Min(ms) ELSE 0

\* QUIC, original code: scan sessions in order; per session: CID match (long: equality with any known CID; short: ANY known
\* CID that is a prefix of the bytes after the first byte -- set iteration order = nondeterminism), then 4-tuple
OrigCands(p) ==   \* set of <<session index, cid handed over>> the original loop may end with
  LET Qs == { j \in 1..Len(sessions) : sessions[j].proto = "quic" }
      Hit(j) == IF p.long THEN (IF p.dcid \in (sessions[j].ccids \cup sessions[j].scids) THEN {p.dcid} ELSE {})
                ELSE { c \in (sessions[j].ccids \cup sessions[j].scids) : IsPrefixOf(c, p.tail) }
      Takes(j) == Hit(j) # {} \/ AddrMatch(sessions[j], p)
      firsts == { j \in Qs : Takes(j) /\ \A i \in Qs : i < j => ~Takes(i) }
  IN UNION { IF Hit(j) # {} THEN { <<j, c>> : c \in Hit(j) } ELSE { <<j, IF p.long THEN p.dcid ELSE <<>> >> } : j \in firsts }

\* QUIC, repaired
Longest(S) == CHOOSE c \in S : \A x \in S : Len(x) <= Len(c)
RepCands(p) ==
  LET Qs == { j \in 1..Len(sessions) : sessions[j].proto = "quic" }
      byAddr == { j \in Qs : AddrMatch(sessions[j], p) }
  IN IF byAddr # {}
     THEN LET j == Min(byAddr)
              fromClient == p.src = sessions[j].c
              side == IF fromClient THEN sessions[j].scids ELSE sessions[j].ccids     \* a packet is addressed to the receiver's CIDs
              hits == IF p.long THEN {p.dcid} ELSE { c \in side : IsPrefixOf(c, p.tail) }
          IN { <<j, IF hits # {} THEN Longest(hits) ELSE <<>> >> }
     ELSE LET all == { <<j, c>> \in Qs \X UNION { sessions[j].ccids \cup sessions[j].scids : j \in Qs } :
                         /\ c \in (sessions[j].ccids \cup sessions[j].scids) /\ c # <<>>
                         /\ (IF p.long THEN c = p.dcid ELSE IsPrefixOf(c, p.tail)) }
          IN IF all = {} THEN {}
             ELSE { CHOOSE x \in all : \A y \in all : Len(y[2]) <= Len(x[2]) }

\* QuicSession.packet_isserver
IsServer(S, p, cid) ==
  IF Repaired /\ AddrMatch(S, p) THEN p.src = S.s
  ELSE IF cid \in S.scids /\ (~Repaired \/ cid # <<>>) THEN FALSE
  ELSE IF cid \in S.ccids /\ (~Repaired \/ cid # <<>>) THEN TRUE
  ELSE ~(p.src = S.c)

\* CID learning while handling the packet (Initial packets and NEW_CONNECTION_ID frames)
Learn(S, p, isserver) ==
  LET S1 == IF p.long THEN (IF isserver THEN [S EXCEPT !.scids = @ \cup {p.scid}, !.ccids = @ \cup {p.dcid}]
                            ELSE [S EXCEPT !.ccids = @ \cup {p.scid}, !.scids = @ \cup {p.dcid}])
            ELSE S
  IN IF p.ncid # <<>> THEN (IF isserver THEN [S1 EXCEPT !.scids = @ \cup {p.ncid}] ELSE [S1 EXCEPT !.ccids = @ \cup {p.ncid}]) ELSE S1

Deliver(i) ==
  /\ pos[i] < Len(Script(i))
  /\ LET k == pos[i] + 1
         p == Script(i)[k]
     IN /\ pos' = [pos EXCEPT ![i] = k] /\ order' = Append(order, i)
        /\ IF Conns[i].proto = "tls"
           THEN LET j == TlsTarget(p) IN
                IF j # 0 THEN /\ delivered' = [delivered EXCEPT ![j] = Append(@, [conn |-> i, k |-> k, isserver |-> p.src = sessions[j].s, cid |-> <<>>])]
                              /\ UNCHANGED <<sessions, dropped>>
                ELSE IF p.src[2] \in ServerPorts \/ p.dst[2] \in ServerPorts
                THEN LET srv == p.src[2] \in ServerPorts
                         S == [proto |-> "tls", c |-> IF srv THEN p.dst ELSE p.src, s |-> IF srv THEN p.src ELSE p.dst,
                               ccids |-> {}, scids |-> {}, conn |-> i]
                     IN /\ sessions' = Append(sessions, S)
                        /\ delivered' = Append(delivered, <<[conn |-> i, k |-> k, isserver |-> srv, cid |-> <<>>]>>)
                        /\ UNCHANGED dropped
                ELSE dropped' = dropped \cup {<<i, k>>} /\ UNCHANGED <<sessions, delivered>>
           ELSE LET cands == IF Repaired THEN RepCands(p) ELSE OrigCands(p) IN
                IF cands # {}
                THEN \E x \in cands :                                   \* set-iteration order
                       LET j == x[1]  cid == x[2]  srv == IsServer(sessions[j], p, cid) IN
                       /\ delivered' = [delivered EXCEPT ![j] = Append(@, [conn |-> i, k |-> k, isserver |-> srv, cid |-> cid])]
                       /\ sessions' = [sessions EXCEPT ![j] = Learn(@, p, srv)]
                       /\ UNCHANGED dropped
                ELSE IF p.long
                THEN LET srv0 == p.src[2] \in ServerPorts
                         S0 == [proto |-> "quic", c |-> IF srv0 THEN p.dst ELSE p.src, s |-> IF srv0 THEN p.src ELSE p.dst,
                                ccids |-> {}, scids |-> {}, conn |-> i]
                         srv == IsServer(S0, p, p.dcid)
                     IN /\ sessions' = Append(sessions, Learn(S0, p, srv))
                        /\ delivered' = Append(delivered, <<[conn |-> i, k |-> k, isserver |-> srv, cid |-> p.dcid]>>)
                        /\ UNCHANGED dropped
                ELSE dropped' = dropped \cup {<<i, k>>} /\ UNCHANGED <<sessions, delivered>>

Init == pos = [i \in 1..N |-> IF i \in Late THEN 3 ELSE 0] /\ sessions = <<>> /\ delivered = <<>> /\ dropped = {} /\ order = <<>>
Next == \E i \in 1..N : Deliver(i)
Spec == Init /\ [][Next]_vars

(* ---------------- contract (C04) ---------------- *)
\* every packet handed to a session belongs to the connection that created it, arrives with its real DCID and the
\* real direction, and nothing of a connection is dropped or handed to another session
DeliveredIsOwn ==
  /\ \A x \in dropped : x[1] \in Late
  /\ \A j \in 1..Len(sessions) : \A n \in 1..Len(delivered[j]) :
       LET e == delivered[j][n]  p == Script(e.conn)[e.k] IN
       /\ e.conn = sessions[j].conn
       /\ e.isserver = (p.d = "s")
       /\ (Conns[e.conn].proto = "quic" => e.cid = p.dcid)
\* ... in its own order, all of it: delivered[j] is exactly the connection's own sequence
OwnSequence == \A j \in 1..Len(sessions) :
                 LET ks == [n \in 1..Len(delivered[j]) |-> delivered[j][n].k] IN ks = [n \in 1..Len(ks) |-> n]
OneSessionPerConn == \A a, b \in 1..Len(sessions) : sessions[a].conn = sessions[b].conn => a = b
\* C18: the result does not depend on the order in which a set is iterated (checked as: no state has two distinct successors
\* for the same captured packet) -- implied by DeliveredIsOwn because the real DCID is unique
View == <<pos, sessions, delivered, dropped>>
AllDone == \A i \in 1..N : pos[i] = Len(Script(i))
Emit == AllDone => PrintT(ToJson([order |-> order]))
=============================================================================
