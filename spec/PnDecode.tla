------------------------------ MODULE PnDecode ------------------------------
(***************************************************************************)
(* QUIC packet-number reconstruction: RFC 9000 Appendix A.3 versus the      *)
(* algorithm of QuicSession.get_full_packet_number (quic_session.py), which *)
(* adds a shortcut for the first packet (largest = 0 and truncated value    *)
(* above it: the truncated value is taken as is) and keeps `largest` per    *)
(* packet-number space and direction (only ever raised).                    *)
(* Scaled for TLC: window sizes WinSet stand for 2^8 .. 2^32, Limit for     *)
(* 2^62.  Apalache checks the same equivalence at the true widths           *)
(* (MC_PnDecode.tla).                                                       *)
(***************************************************************************)
EXTENDS Integers, Sequences, TLC

CONSTANTS WinSet, Limit, MaxSteps

Rfc(l, t, w) == LET e == l + 1
                    hw == w \div 2
                    c == (e - (e % w)) + t
                IN IF c <= e - hw /\ c < Limit - w THEN c + w
                   ELSE IF c > e + hw /\ c >= w THEN c - w
                   ELSE c
Code(l, t, w) == IF t > l /\ l = 0 THEN t ELSE Rfc(l, t, w)

(* a history: packets of one space/direction arrive with gaps and reordering; each is encoded with a window the
   sender may legally use (the true number lies within half a window of largest + 1) *)
VARIABLES largest, steps, lastOk
vars == <<largest, steps, lastOk>>
Abs(x) == IF x < 0 THEN -x ELSE x

Receive == /\ steps < MaxSteps
           /\ \E w \in WinSet, pn \in 0..(Limit - 1) :
                /\ Abs(pn - (largest + 1)) < w \div 2            \* RFC 9000 17.1: the encoding must be wide enough
                /\ LET t == pn % w
                       full == Code(largest, t, w)
                   IN /\ lastOk' = (full = pn /\ full = Rfc(largest, t, w))
                      /\ largest' = IF full > largest THEN full ELSE largest
           /\ steps' = steps + 1
Init == largest = 0 /\ steps = 0 /\ lastOk = TRUE
Spec == Init /\ [][Receive]_vars

\* every reconstructed number equals the sender's and the RFC's result (C16), along every history
AlwaysRfc == lastOk
(* Use as AEAD nonce (RFC 9001 5.3): the 62-bit reconstructed number, left-padded to the IV length, XORed with the IV.
   Scaled: digits of base B, IV of NIv digits, numbers below B^NPn = Limit (NPn < NIv).  QuicDecryptor.decrypt does
   int(pn).to_bytes(len(iv)) XOR iv = NonceCode; NonceLowOnly (only the low LowDigits digits of the number reach the nonce --
   the "a packet number has at most 4 bytes" misreading) is refuted: it is the same for all numbers that agree in those digits. *)
CONSTANTS B, NIv, LowDigits
RECURSIVE Pow(_, _)
Pow(b, n) == IF n = 0 THEN 1 ELSE b * Pow(b, n - 1)
Digits(x, n) == [i \in 1..n |-> (x \div Pow(B, n - i)) % B]                 \* big-endian, left-padded
XorD(a, b) == (a + b) % B                                                   \* any digit-wise group operation stands for XOR here
NonceRfc(iv, pn)  == [i \in 1..NIv |-> XorD(iv[i], Digits(pn, NIv)[i])]
NonceCode(iv, pn) == NonceRfc(iv, pn)                                       \* to_bytes(len(iv), "big") is the left padding
NonceLowOnly(iv, pn) == [i \in 1..NIv |-> IF i > NIv - LowDigits THEN XorD(iv[i], Digits(pn % Pow(B, LowDigits), NIv)[i]) ELSE iv[i]]
SomeIv == [i \in 1..NIv |-> i % B]
NonceEq == \A pn \in 0..(Limit - 1) : NonceCode(SomeIv, pn) = NonceRfc(SomeIv, pn)
NonceInjective == \A a, b \in 0..(Limit - 1) : a # b => NonceCode(SomeIv, a) # NonceCode(SomeIv, b)     \* a nonce is never reused under one key
NonceLowOnlyInjective == (steps >= 0) => \A a, b \in 0..(Limit - 1) : a # b => NonceLowOnly(SomeIv, a) # NonceLowOnly(SomeIv, b)  \* refuted

\* pointwise equivalence over the whole (scaled) domain
Agree == \A w \in WinSet : \A l \in 0..(Limit - 1) : \A t \in 0..(w - 1) : Code(l, t, w) = Rfc(l, t, w)
=============================================================================
