----------------------------- MODULE MC_PnDecode -----------------------------
(* Apalache wrapper: equivalence of the code-shaped algorithm and RFC 9000 A.3 at the true bit widths. *)
EXTENDS Integers

VARIABLES
  \* @type: Int;
  largest,
  \* @type: Int;
  trunc,
  \* @type: Int;
  win

Two62 == 4611686018427387904

Rfc(l, t, w) == LET e == l + 1
                    hw == w \div 2
                    c == (e - (e % w)) + t
                IN IF c <= e - hw /\ c < Two62 - w THEN c + w
                   ELSE IF c > e + hw /\ c >= w THEN c - w
                   ELSE c
Code(l, t, w) == IF t > l /\ l = 0 THEN t ELSE Rfc(l, t, w)

Init == /\ win \in {256, 65536, 16777216, 4294967296}
        /\ largest \in Int /\ 0 <= largest /\ largest < Two62
        /\ trunc \in Int /\ 0 <= trunc /\ trunc < win
Next == UNCHANGED <<largest, trunc, win>>
Agree == Code(largest, trunc, win) = Rfc(largest, trunc, win)
\* sanity: an off-by-one variant must be refuted
RfcBad(l, t, w) == LET e == l + 1
                       hw == w \div 2
                       c == (e - (e % w)) + t
                   IN IF c < e - hw /\ c < Two62 - w THEN c + w
                      ELSE IF c > e + hw /\ c >= w THEN c - w
                      ELSE c
AgreeBad == RfcBad(largest, trunc, win) = Rfc(largest, trunc, win)
==============================================================================
