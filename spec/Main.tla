-------------------------------- MODULE Main --------------------------------
(***************************************************************************)
(* The run() glue of tlexport/main.py as far as determinism is concerned:   *)
(* module-level state (server_ports, keylog, sessions, quic_sessions) that  *)
(* survives from one run() to the next in the same process, and iteration   *)
(* over Python sets (order depends on the hash seed) while matching QUIC    *)
(* datagrams.  Abstract run: reads a capture of NPkts packets of NConn       *)
(* connections, delivers them, builds the output from the sessions.          *)
(* Repaired = TRUE: run() starts from fresh module state (the fix).          *)
(* The runs of one process may be on DIFFERENT captures (Caps): capture 2   *)
(* is capture 1 cut before its last packet -- a run that ends with          *)
(* unfinished per-session state; nothing of it may reach a later run.       *)
(***************************************************************************)
EXTENDS Naturals, Sequences, FiniteSets, TLC

CONSTANTS NConn, PktsPerConn, Runs, Repaired, Seeds, Caps

VARIABLES run, pos, sessions, keylog, ports, outputs, seed, cap
vars == <<run, pos, sessions, keylog, ports, outputs, seed, cap>>

Full == [i \in 1..(NConn * PktsPerConn) |-> ((i - 1) % NConn) + 1]         \* connection of the i-th packet (round robin)
Capture == IF cap = 1 THEN Full ELSE SubSeq(Full, 1, Len(Full) - 1)

Fresh == /\ sessions' = <<>> /\ keylog' = <<>> /\ ports' = <<443, 44330>>
StartRun == /\ pos = 0 /\ run < Runs
            /\ seed' \in Seeds                                  \* PYTHONHASHSEED / environment of this run: may differ between runs
            /\ cap' \in Caps
            /\ IF Repaired \/ run = 0 THEN Fresh ELSE UNCHANGED <<sessions, keylog, ports>>
            /\ pos' = 1 /\ UNCHANGED <<run, outputs>>
\* one packet: matched to the session of its connection (Demux.tla establishes that the match is unique, i.e. independent of
\* the set iteration order given by `seed`), or a new session
Packet == /\ pos >= 1 /\ pos <= Len(Capture)
          /\ LET c == Capture[pos]
                 idx == { j \in 1..Len(sessions) : sessions[j].conn = c }
             IN IF idx # {}
                THEN LET j == CHOOSE j \in idx : \A k \in idx : j <= k       \* first match in list order
                     IN sessions' = [sessions EXCEPT ![j].pkts = Append(@, pos)]
                ELSE sessions' = Append(sessions, [conn |-> c, pkts |-> <<pos>>])
          /\ pos' = pos + 1 /\ UNCHANGED <<run, keylog, ports, outputs, seed, cap>>
Finish == /\ pos = Len(Capture) + 1
          /\ outputs' = Append(outputs, [cap |-> cap, res |-> [j \in 1..Len(sessions) |-> sessions[j]]])   \* built from ALL sessions in the list
          /\ run' = run + 1 /\ pos' = 0 /\ UNCHANGED <<sessions, keylog, ports, seed, cap>>
Init == run = 0 /\ pos = 0 /\ sessions = <<>> /\ keylog = <<>> /\ ports = <<443, 44330>> /\ outputs = <<>> /\ seed \in Seeds /\ cap \in Caps
Next == StartRun \/ Packet \/ Finish
Spec == Init /\ [][Next]_vars

\* C18: the output of a run is a function of its capture alone -- whatever the seeds and whatever earlier runs processed
OutputIsFunctionOfInputs == \A i, j \in 1..Len(outputs) : outputs[i].cap = outputs[j].cap => outputs[i].res = outputs[j].res
=============================================================================
