-------------------------------- MODULE Main --------------------------------
(***************************************************************************)
(* The run() glue of tlexport/main.py as far as determinism is concerned:   *)
(* module-level state (server_ports, keylog, sessions, quic_sessions) that  *)
(* survives from one run() to the next in the same process, and iteration   *)
(* over Python sets (order depends on the hash seed) while matching QUIC    *)
(* datagrams.  Abstract run: reads a capture of NPkts packets of NConn       *)
(* connections, delivers them, builds the output from the sessions.          *)
(* Repaired = TRUE: run() starts from fresh module state (the fix).          *)
(***************************************************************************)
EXTENDS Naturals, Sequences, FiniteSets, TLC

CONSTANTS NConn, PktsPerConn, Runs, Repaired, Seeds

VARIABLES run, pos, sessions, keylog, ports, outputs, seed
vars == <<run, pos, sessions, keylog, ports, outputs, seed>>

Capture == [i \in 1..(NConn * PktsPerConn) |-> ((i - 1) % NConn) + 1]      \* connection of the i-th packet (round robin)

Fresh == /\ sessions' = <<>> /\ keylog' = <<>> /\ ports' = <<443, 44330>>
StartRun == /\ pos = 0 /\ run < Runs
            /\ seed' \in Seeds                                  \* PYTHONHASHSEED / environment of this run: may differ between runs
            /\ IF Repaired \/ run = 0 THEN Fresh ELSE UNCHANGED <<sessions, keylog, ports>>
            /\ pos' = 1 /\ UNCHANGED <<run, outputs>>
\* one packet: matched to the session of its connection (Demux.tla establishes that the match is unique, i.e. independent of
\* the set iteration order given by `seed`), or a new session
Packet == /\ pos >= 1 /\ pos <= Len(Capture)
          /\ LET c == Capture[pos]
                 idx == { j \in 1..Len(sessions) : sessions[j].conn = c }
             IN IF idx # {}
                THEN LET j == CHOOSE j \in idx : \A k \in idx : j <= k       \* first match in list order
                     IN sessions' = [sessions EXCEPT ![j].pkts = Append(@, pos)]
                ELSE sessions' = Append(sessions, [conn |-> c, pkts |-> <<pos>>])
          /\ pos' = pos + 1 /\ UNCHANGED <<run, keylog, ports, outputs, seed>>
Finish == /\ pos = Len(Capture) + 1
          /\ outputs' = Append(outputs, [j \in 1..Len(sessions) |-> sessions[j]])      \* the output is built from ALL sessions in the list
          /\ run' = run + 1 /\ pos' = 0 /\ UNCHANGED <<sessions, keylog, ports, seed>>
Init == run = 0 /\ pos = 0 /\ sessions = <<>> /\ keylog = <<>> /\ ports = <<443, 44330>> /\ outputs = <<>> /\ seed \in Seeds
Next == StartRun \/ Packet \/ Finish
Spec == Init /\ [][Next]_vars

\* C18: every run's output equals the first run's, whatever the seeds
OutputIsFunctionOfInputs == \A i \in 1..Len(outputs) : outputs[i] = outputs[1]
=============================================================================
