----------------------------- MODULE TlsSession -----------------------------
(***************************************************************************)
(* One TLS-over-TCP connection as TLExport's Session sees it: the           *)
(* handshake automaton of handle_tls_record / handle_tls_handshake_record / *)
(* handle_handshake_finished / handle_tls_server_hello / generate_keys      *)
(* gates, and the per-direction cipher state of Decryptor (sequence number, *)
(* CBC residue, RC4 keystream position, TLS 1.3 handshake->application key  *)
(* switch) -- tlexport/session.py, tlexport/decryptor.py.                   *)
(*                                                                          *)
(* Environment = both endpoints following the protocol: they emit the       *)
(* records of a full / abbreviated / TLS 1.3 handshake and then any         *)
(* history of <= MaxApp application records (any direction order, length    *)
(* class), optional TLS 1.3 tickets and record padding.  Every protected    *)
(* record is stamped with the SENDER's cipher state (`prot`); a decrypt     *)
(* succeeds iff the receiver-side state of the code equals it.              *)
(*                                                                          *)
(* Records are handled in capture order = send order (reassembly is          *)
(* Reasm.tla's concern), so producing and handling a record is one step.    *)
(*                                                                          *)
(* Information-removing faults (C03/C08) are further environment actions:   *)
(* keys missing from the log, unknown suite, capture starting after the     *)
(* hellos, loss of a whole record (KF_LossResync: the code resynchronises   *)
(* after a gap -- known finding shared with Reasm.KF_GapAccept).            *)
(***************************************************************************)
EXTENDS Naturals, Sequences, FiniteSets, SequencesExt, TLC, Json

CONSTANTS Vers, Fams,           \* sets of versions / cipher families to explore
          MaxApp,               \* application records per behaviour
          LenClasses,           \* abstract payload length classes (0 = empty record)
          AllowLoss,            \* enable KF_LossResync
          Faults,               \* subset of {"nokeys","nosuite","midstart"}
          Unsup,                \* named inputs OUTSIDE what C01 claims that the code must survive (C03 / C06 / C08): subset of
                                \*   "keyupdate" - TLS 1.3 KeyUpdate (RFC 8446 4.6.3): not implemented, the direction goes dark after it
                                \*   "hrr"       - HelloRetryRequest: hello, HRR, CCS, CCS, second hello, ServerHello
          EarlyData,            \* allow application data of the side that finished first before the peer's Finished (False Start / 0.5-RTT)
          Alerts,               \* allow one alert record in the application phase (half-close; data after an alert is not claimed by C01)
          EmitOn

Dir == {"c", "s"}
Other(d) == IF d = "c" THEN "s" ELSE "c"

ValidPair(v, f) ==
  CASE v = "TLS13" -> f \in {"AEAD", "CHACHA"}
    [] v = "TLS12" -> TRUE
    [] OTHER       -> f \in {"CBC", "RC4"}
ImplicitIV(v) == v \in {"SSL30", "TLS10"}

VARIABLES ver, fam, abbrev, hsInLog, pad, tickets, group, fault, hrr, early, compat,   \* world (chosen in Init)
          ku,                                                              \* directions that sent a KeyUpdate (environment)
          pc,                   \* position in the handshake script
          snd,                  \* sender cipher state per direction
          nApp, nextId,         \* application records sent, next payload id
          sentApp,              \* ground truth: payload ids sent per direction
          \* ---- Session / Decryptor state ----
          chSeen, canDec, hasDec, ccs, rcv,
          exported,             \* payload ids appended to application_traffic per direction (0 = garbage)
          crashed,
          metaOut,              \* what is appended with -a (exp_meta): entries [d, k, id] in append order
          alerted,              \* "none", or the side that sent an alert record
          lost,                 \* a record was dropped from the capture (KF_LossResync taken)
          hist                  \* records in capture order (history, for behaviour export)

world == <<ver, fam, abbrev, hsInLog, pad, tickets, group, fault, hrr, early, compat>>
envv  == <<pc, snd, nApp, nextId, sentApp, lost, alerted, ku>>
implv == <<chSeen, canDec, hasDec, ccs, rcv, exported, crashed>>
implAll == <<implv, metaOut>>
vars  == <<world, envv, implv, metaOut, hist>>

(* ---------------- handshake scripts: sequences of [d, k] ---------------- *)
\* k: CH SH HS (other plaintext handshake) CCS FIN (encrypted Finished, <= 1.2)
\*    H13 (encrypted handshake record without Finished) F13 (encrypted handshake record containing Finished)
R(d, k) == [d |-> d, k |-> k]
Full12 == <<R("c","CH"), R("s","SH")>>
          \o (IF group = "flight" THEN <<>> ELSE <<R("s","HS"), R("s","HS")>>)
          \o <<R("c","HS"), R("c","CCS"), R("c","FIN")>>
          \o (IF tickets THEN <<R("s","HS")>> ELSE <<>>)
          \o <<R("s","CCS"), R("s","FIN")>>
Abbr12 == <<R("c","CH"), R("s","SH"), R("s","CCS"), R("s","FIN"), R("c","CCS"), R("c","FIN")>>
Full13 == (IF hrr THEN <<R("c","CH"), R("s","SH"), R("s","CCS"), R("c","CCS"), R("c","CH"), R("s","SH")>>     \* the HRR is ServerHello-shaped
                 ELSE <<R("c","CH"), R("s","SH")>> \o (IF compat THEN <<R("s","CCS")>> ELSE <<>>))
          \o (IF group = "flight" THEN <<R("s","F13")>> ELSE <<R("s","H13"), R("s","H13"), R("s","H13"), R("s","F13")>>)
          \o (IF compat THEN <<R("c","CCS")>> ELSE <<>>) \o <<R("c","F13")>>
\* compat = FALSE: TLS 1.3 without middlebox-compatibility mode (RFC 8446 D.4: empty legacy_session_id, NO ChangeCipherSpec records at all) --
\* nothing in a TLS 1.3 connection may hinge on having seen one
Script == IF ver = "TLS13" THEN Full13 ELSE IF abbrev THEN Abbr12 ELSE Full12
\* early application data: the side whose Finished goes out first may send application data before the peer's Finished arrives
\* (TLS <= 1.2 False Start, RFC 7918: the client after its Finished; abbreviated handshake and TLS 1.3 0.5-RTT data: the server)
EarlyDir == IF ver = "TLS13" \/ abbrev THEN "s" ELSE "c"
EarlyPos == CHOOSE i \in 1..Len(Script) : Script[i].d = EarlyDir /\ Script[i].k \in {"FIN", "F13"}
\* a capture that starts after the hellos (fault "midstart") simply lacks the first two records
Start == IF fault = "midstart" THEN 3 ELSE 1

(* ---------------- sender side ---------------- *)
Fresh(ep) == [ep |-> ep, seq |-> 0, chain |-> 0, pos |-> 0]
\* stamp of the sender state + advance
Stamp(d) == snd[d]
SndAdvance(st, id, len) == [st EXCEPT !.seq = @ + 1, !.chain = id, !.pos = @ + len + 1]

(* ---------------- the code: Decryptor.decrypt ---------------- *)
KeyOk(r, st) == r.prot.ep = st.ep
Outcome(r, st) ==
  IF fam \in {"AEAD", "CHACHA"} THEN (IF KeyOk(r, st) /\ r.prot.seq = st.seq THEN "ok" ELSE "raise")
  ELSE IF fam = "CBC" THEN (IF KeyOk(r, st) /\ (~ImplicitIV(ver) \/ r.prot.chain = st.chain) THEN "ok" ELSE "garbage")
  ELSE (IF KeyOk(r, st) /\ r.prot.pos = st.pos THEN "ok" ELSE "garbage")
RcvAdvance(r, st, out) ==
  IF fam \in {"AEAD", "CHACHA"} THEN (IF out = "ok" THEN [st EXCEPT !.seq = @ + 1] ELSE st)
  ELSE IF fam = "CBC" THEN [st EXCEPT !.chain = r.id]            \* last ciphertext block of THIS record
  ELSE [st EXCEPT !.pos = @ + r.len + 1]                        \* keystream consumed whatever the result

(* ---------------- the code: Session.handle_tls_record ---------------- *)
KeysFound == fault # "nokeys"
SuiteKnown == fault # "nosuite"
\* hsInLog: which sides' handshake traffic secrets the key log holds ("both", "none", "c", "s").  Decryptor.parse_keys falls back PER SIDE:
\* a side without handshake secret starts with its application key
HsIn(d) == hsInLog \in {"both", d}
RcvInit(d) == IF ver = "TLS13" THEN Fresh(IF HsIn(d) THEN "hs" ELSE "app") ELSE Fresh("app")

HandleFinished(r) ==                       \* handle_handshake_finished (exceptions swallowed by the caller)
  IF hasDec /\ ccs[r.d] /\ canDec
  THEN rcv' = [rcv EXCEPT ![r.d] = RcvAdvance(r, @, Outcome(r, @))]
  ELSE UNCHANGED rcv

Handle(r) ==
  CASE r.k \in {"CH", "SH", "HS", "FIN"} ->                      \* record type 0x16
         IF ccs["c"] \/ ccs["s"]
         THEN HandleFinished(r) /\ UNCHANGED <<chSeen, canDec, hasDec, ccs, exported, crashed>>
         ELSE IF r.k = "CH"
              THEN /\ chSeen' = TRUE /\ canDec' = FALSE /\ ccs' = [x \in Dir |-> FALSE]
                   /\ UNCHANGED <<hasDec, rcv, exported, crashed>>
         ELSE IF r.k = "SH"
              THEN /\ canDec' = ((chSeen \/ canDec) /\ SuiteKnown /\ KeysFound)   \* generate_keys clears can_decrypt on its early returns
                   /\ hasDec' = (hasDec \/ (SuiteKnown /\ KeysFound))
                   /\ rcv' = [x \in Dir |-> RcvInit(x)]
                   /\ UNCHANGED <<chSeen, ccs, exported, crashed>>
         ELSE HandleFinished(r) /\ UNCHANGED <<chSeen, canDec, hasDec, ccs, exported, crashed>>
    [] r.k = "CCS" ->
         /\ ccs' = [ccs EXCEPT ![r.d] = TRUE]
         /\ UNCHANGED <<chSeen, canDec, hasDec, rcv, exported, crashed>>
    [] r.k = "ALERT" ->                                          \* record type 0x15 (TLS <= 1.2): handle_alert(first body byte)
         \* the body is encrypted: its first byte "looks like" a warning (0x01) or not -- r.len carries that bit
         /\ IF r.len = 1 /\ ver # "TLS13" THEN UNCHANGED <<chSeen, canDec>>
            ELSE chSeen' = FALSE /\ canDec' = FALSE
         /\ UNCHANGED <<hasDec, ccs, rcv, exported, crashed>>
    [] r.k \in {"APP", "H13", "F13", "T13", "A13", "K13"} ->     \* record type 0x17 (A13 / K13: a TLS 1.3 alert / KeyUpdate travels as such a record)
         IF ~(canDec /\ hasDec) THEN UNCHANGED implv
         ELSE LET out == Outcome(r, rcv[r.d]) IN
              IF ver = "TLS13"
              THEN IF out # "ok" THEN UNCHANGED implv             \* try/except: nothing changes, no sequence number consumed
                   ELSE /\ rcv' = [rcv EXCEPT ![r.d] = IF r.k = "F13" THEN Fresh("app")        \* update_keys: seq := 0
                                                       ELSE RcvAdvance(r, @, "ok")]
                        /\ exported' = IF r.k = "APP" THEN [exported EXCEPT ![r.d] = Append(@, r.id)] ELSE exported
                        /\ UNCHANGED <<chSeen, canDec, hasDec, ccs, crashed>>
              ELSE /\ rcv' = [rcv EXCEPT ![r.d] = RcvAdvance(r, @, out)]
                   /\ exported' = IF out = "raise" THEN exported   \* AEAD failure: logged, nothing appended
                                  ELSE [exported EXCEPT ![r.d] = Append(@, IF out = "ok" THEN r.id ELSE 0)]
                   /\ UNCHANGED <<chSeen, canDec, hasDec, ccs, crashed>>

(* -a : handle_tls_record appends the raw handshake / CCS / alert records, handle_handshake_finished the decrypted
   Finished; application data is appended exactly as without the option *)
M(d, k, id) == [d |-> d, k |-> k, id |-> id]
MetaStep(r) ==
  LET finDec == r.k \in {"CH", "SH", "HS", "FIN"} /\ (ccs["c"] \/ ccs["s"] \/ r.k \in {"HS", "FIN"}) /\ hasDec /\ ccs[r.d] /\ canDec
                /\ ~(r.k \in {"CH", "SH"} /\ ~(ccs["c"] \/ ccs["s"]))
      appOk == r.k = "APP" /\ Len(exported'[r.d]) > Len(exported[r.d])
  IN metaOut' = metaOut
       \o (IF finDec /\ Outcome(r, rcv[r.d]) # "raise" THEN <<M(r.d, "finplain", r.id)>> ELSE <<>>)
       \o (IF r.k \in {"CH", "SH", "HS", "FIN", "CCS", "ALERT"} THEN <<M(r.d, "raw", r.id)>> ELSE <<>>)
       \o (IF appOk THEN <<M(r.d, "app", exported'[r.d][Len(exported'[r.d])])>> ELSE <<>>)

(* ---------------- environment steps (produce + capture + handle) ---------------- *)
Protected(k) == k \in {"FIN", "APP", "H13", "F13", "T13", "ALERT", "A13", "K13"}
Rec(d, k, len) == [d |-> d, k |-> k, id |-> nextId, len |-> len, pad |-> (pad /\ k = "APP"),
                   prot |-> IF Protected(k) THEN Stamp(d) ELSE Fresh("none")]

Emitted(r, drop) ==
  /\ nextId' = nextId + 1
  /\ snd' = IF Protected(r.k)
            THEN [snd EXCEPT ![r.d] = IF r.k = "F13" THEN Fresh("app")
                                      ELSE IF r.k = "K13" THEN Fresh("app+")        \* next generation traffic secret, sequence number 0
                                      ELSE SndAdvance(@, r.id, r.len)]
            ELSE IF r.k = "SH" THEN [x \in Dir |-> Fresh(IF ver = "TLS13" THEN "hs" ELSE "app")]
            ELSE snd
  /\ IF drop THEN UNCHANGED implAll /\ hist' = Append(hist, [r EXCEPT !.k = "LOST:" \o r.k])
     ELSE Handle(r) /\ MetaStep(r) /\ hist' = Append(hist, r)

HsStep == /\ pc <= Len(Script)
          /\ LET r == Rec(Script[pc].d, Script[pc].k, 1) IN Emitted(r, FALSE)
          /\ pc' = pc + 1
          /\ UNCHANGED <<world, nApp, sentApp, lost>>

AppStep(drop) == /\ nApp < MaxApp
           /\ \E d \in Dir \ {alerted}, lc \in LenClasses :      \* a side that sent its alert (close_notify) sends nothing more
                LET r == Rec(d, "APP", lc) IN
                /\ (pc > Len(Script) \/ (early /\ ~drop /\ d = EarlyDir /\ pc > EarlyPos))
                /\ Emitted(r, drop)
                /\ sentApp' = [sentApp EXCEPT ![d] = Append(@, r.id)]
           /\ nApp' = nApp + 1
           /\ UNCHANGED <<world, pc>>

Ticket13 == /\ pc > Len(Script) /\ ver = "TLS13" /\ tickets /\ nApp < MaxApp
            /\ ~\E i \in 1..Len(hist) : hist[i].k = "T13"
            /\ LET r == Rec("s", "T13", 2) IN Emitted(r, FALSE)
            /\ UNCHANGED <<world, pc, nApp, sentApp, lost>>

\* TLS 1.3 KeyUpdate of one direction (at most one per direction): the message itself is the last record of the old generation
KeyUpdate13 == /\ "keyupdate" \in Unsup /\ ver = "TLS13" /\ pc > Len(Script) /\ nApp < MaxApp
               /\ \E d \in Dir \ ku :
                    /\ LET r == Rec(d, "K13", 2) IN Emitted(r, FALSE)
                    /\ ku' = ku \cup {d}
               /\ UNCHANGED <<world, pc, nApp, sentApp, lost, alerted>>

KF_LossResync == AllowLoss /\ ~lost /\ AppStep(TRUE) /\ lost' = TRUE /\ UNCHANGED alerted

\* one alert of either side somewhere in the application phase (e.g. close_notify of a half-close); the other side may go on
AlertStep == /\ Alerts /\ alerted = "none" /\ pc > Len(Script) /\ nApp < MaxApp
             /\ \E d \in Dir, looksWarning \in {0, 1} :
                  /\ LET r == Rec(d, IF ver = "TLS13" THEN "A13" ELSE "ALERT", looksWarning) IN Emitted(r, FALSE)
                  /\ alerted' = d
             /\ UNCHANGED <<world, pc, nApp, sentApp, lost>>

Next == (HsStep /\ UNCHANGED <<alerted, ku>>) \/ (AppStep(FALSE) /\ UNCHANGED <<lost, alerted, ku>>) \/ (Ticket13 /\ UNCHANGED <<alerted, ku>>)
        \/ (KF_LossResync /\ UNCHANGED ku) \/ (AlertStep /\ UNCHANGED ku) \/ KeyUpdate13

Init == /\ ver \in Vers /\ fam \in Fams /\ ValidPair(ver, fam)
        /\ abbrev \in (IF ver = "TLS13" THEN {FALSE} ELSE BOOLEAN)
        /\ hsInLog \in (IF ver = "TLS13" THEN {"both", "none", "c", "s"} ELSE {"both"})
        /\ pad \in (IF ver = "TLS13" THEN BOOLEAN ELSE {FALSE})
        /\ tickets \in (IF abbrev THEN {FALSE} ELSE BOOLEAN)
        /\ group \in (IF abbrev THEN {"permsg"} ELSE {"permsg", "flight"})
        /\ fault \in ({"none"} \cup Faults)
        /\ hrr \in (IF ver = "TLS13" /\ "hrr" \in Unsup THEN BOOLEAN ELSE {FALSE}) /\ ku = {}
        /\ early \in (IF EarlyData /\ fault = "none" THEN BOOLEAN ELSE {FALSE})
        /\ compat \in (IF ver = "TLS13" /\ ~hrr THEN BOOLEAN ELSE {TRUE})
        /\ pc = Start /\ snd = [x \in Dir |-> Fresh("none")]
        /\ nApp = 0 /\ nextId = 1 /\ sentApp = [x \in Dir |-> <<>>] /\ lost = FALSE /\ alerted = "none"
        /\ chSeen = FALSE /\ canDec = FALSE /\ hasDec = FALSE /\ ccs = [x \in Dir |-> FALSE]
        /\ rcv = [x \in Dir |-> Fresh("none")] /\ exported = [x \in Dir |-> <<>>] /\ crashed = FALSE
        /\ hist = <<>> /\ metaOut = <<>>
Spec == Init /\ [][Next]_vars

(* ---------------- contract ---------------- *)
Done == pc > Len(Script) /\ nApp = MaxApp
Healthy == fault = "none" /\ ~lost /\ alerted = "none" /\ ku = {}
\* C01: at quiescence exactly the application data each endpoint sent, in order
ExportedEqualsSent == (Done /\ Healthy) => \A d \in Dir : exported[d] = sentApp[d]
\* C01 / C03 / C08: always a prefix (holds before quiescence, under missing keys, unknown suite, mid-start)
ExportedIsPrefix == ~lost => \A d \in Dir : IsPrefix(exported[d], sentApp[d])
\* C03: information-removing faults never produce ciphertext or invented bytes ...
NeverGarbage == ~lost => \A d \in Dir : \A i \in 1..Len(exported[d]) : exported[d][i] # 0
\* ... and the run never aborts
NeverCrashes == ~crashed
\* what loss does (documents KF_LossResync per family): checked only in the AllowLoss configuration
PrefixUnderLoss == \A d \in Dir : IsPrefix(exported[d], sentApp[d])
\* named unsupported input KeyUpdate: the updating direction exports exactly what it sent before the update, the other one everything
SentBeforeKu(d) == LET idx == { i \in 1..Len(hist) : hist[i].k = "K13" /\ hist[i].d = d }
                       cut == IF idx = {} THEN Len(hist) + 1 ELSE CHOOSE i \in idx : TRUE
                       sel == SelectSeq(SubSeq(hist, 1, cut - 1), LAMBDA h : h.k = "APP" /\ h.d = d)
                   IN [i \in 1..Len(sel) |-> sel[i].id]
KeyUpdateDark == (Done /\ fault = "none" /\ ~lost /\ alerted = "none") => \A d \in Dir : exported[d] = SentBeforeKu(d)
\* keyless / unsupported sessions export nothing
ClosedGate == (fault \in {"nokeys", "nosuite", "midstart"}) => \A d \in Dir : exported[d] = <<>>
\* C08
ExportMonotone == [][\A d \in Dir : IsPrefix(exported[d], exported'[d])]_vars

\* C13: with -a the application data appended is exactly the application data appended without it, in the same order
AppOf(d) == LET sel == SelectSeq(metaOut, LAMBDA m : m.d = d /\ m.k = "app") IN [i \in 1..Len(sel) |-> sel[i].id]
MetaOnlyAdds == \A d \in Dir : AppOf(d) = exported[d]
\* ... and ClientHello / ServerHello records are present verbatim
HellosExported == \A i \in 1..Len(hist) : hist[i].k \in {"CH", "SH"} =>
                    \E j \in 1..Len(metaOut) : metaOut[j].k = "raw" /\ metaOut[j].id = hist[i].id

View == <<world, envv, implv>>

Emit == (EmitOn /\ Done) =>
   PrintT(ToJson([ver |-> ver, fam |-> fam, abbrev |-> abbrev, hsInLog |-> hsInLog, pad |-> pad, tickets |-> tickets,
                  group |-> group, fault |-> fault, lost |-> lost, hrr |-> hrr, ku |-> ku, early |-> early, compat |-> compat,
                  hist |-> [i \in 1..Len(hist) |-> [d |-> hist[i].d, k |-> hist[i].k, len |-> hist[i].len, id |-> hist[i].id]],
                  exported |-> exported, sentApp |-> sentApp]))
=============================================================================
