------------------------------- MODULE Frames -------------------------------
(***************************************************************************)
(* The QUIC frame grammar (RFC 9000 section 19, RFC 9221) as a generator    *)
(* automaton, and the parser loop of parse_frames (quic/quic_frame.py) as a *)
(* variant argument: every frame class consumes at least one byte and        *)
(* exactly the bytes of its encoding, so the remaining length strictly       *)
(* decreases and every payload byte is accounted for exactly once.           *)
(* A symbol is a frame kind with the width of its variable-length integers   *)
(* (1/2/4/8 bytes, non-minimal included) and, for STREAM, the OFF/LEN/FIN    *)
(* flags.  TLC enumerates all sequences of <= MaxFrames symbols (a frame     *)
(* without length field only in last position) and prints them for the       *)
(* conformance step, which encodes them with the reference encoders and      *)
(* compares the real parser's output field by field.                         *)
(***************************************************************************)
EXTENDS Naturals, Sequences, FiniteSets, TLC, Json

CONSTANTS MaxFrames, Widths, Kinds, EmitOn

\* varint fields per kind (stream: id [+off] [+len]); fixed bytes; data bytes carried (abstract sizes)
NVar(k, fl) ==
  CASE k = "padding" -> 0 [] k = "ping" -> 0 [] k = "ack" -> 4 [] k = "ack_ecn" -> 7 [] k = "reset" -> 3 [] k = "stop" -> 2
    [] k = "crypto" -> 2 [] k = "token" -> 1 [] k = "maxdata" -> 1 [] k = "maxsdata" -> 2 [] k = "maxstreams" -> 1
    [] k = "blocked" -> 1 [] k = "sblocked" -> 2 [] k = "streamsblocked" -> 1 [] k = "ncid" -> 2 [] k = "retire" -> 1
    [] k = "pchal" -> 0 [] k = "presp" -> 0 [] k = "close_t" -> 3 [] k = "close_a" -> 2 [] k = "done" -> 0
    [] k = "dgram" -> 0 [] k = "dgram_len" -> 1
    [] k = "stream" -> 1 + (IF (fl \div 4) % 2 = 1 THEN 1 ELSE 0) + (IF (fl \div 2) % 2 = 1 THEN 1 ELSE 0)
Fixed(k) == CASE k \in {"pchal", "presp"} -> 8 [] k = "ncid" -> 1 + 4 + 16 [] OTHER -> 0
Data(k)  == CASE k \in {"crypto", "token", "stream", "dgram", "dgram_len", "close_t", "close_a"} -> 5 [] k = "padding" -> 2 [] OTHER -> 0
HasLen(k, fl) == ~(k = "dgram" \/ (k = "stream" /\ (fl \div 2) % 2 = 0))

EncLen(s) == 1 + NVar(s.k, s.fl) * s.w + Fixed(s.k) + Data(s.k)     \* what the encoder emits = what the parser must consume

Sym == { s \in [k : Kinds, w : Widths, fl : 0..7] : (s.k # "stream" => s.fl = 0) /\ (NVar(s.k, s.fl) = 0 => s.w = 1) }

VARIABLES seq, rest, closed
vars == <<seq, rest, closed>>

RECURSIVE Total(_)
Total(q) == IF q = <<>> THEN 0 ELSE EncLen(Head(q)) + Total(Tail(q))

\* generator: choose the next frame; then the parser loop consumes it
Add == /\ ~closed /\ Len(seq) < MaxFrames
       /\ \E s \in Sym :
            /\ seq' = Append(seq, s)
            /\ closed' = ~HasLen(s.k, s.fl)              \* a frame that extends to the end of the packet is the last one
       /\ UNCHANGED rest
Close == /\ ~closed /\ seq # <<>> /\ closed' = TRUE /\ UNCHANGED <<seq, rest>>
\* the parser loop over the completed payload: one frame per iteration
Parse == /\ closed /\ rest < Len(seq)
         /\ rest' = rest + 1
         /\ UNCHANGED <<seq, closed>>
Init == seq = <<>> /\ rest = 0 /\ closed = FALSE
Next == Add \/ Close \/ Parse
Spec == Init /\ [][Next]_vars

\* variant: every iteration consumes >= 1 byte; after Len(seq) iterations exactly Total(seq) bytes are consumed
EveryFrameConsumes == \A i \in 1..Len(seq) : EncLen(seq[i]) >= 1
RECURSIVE Consumed(_, _)
Consumed(q, n) == IF n = 0 THEN 0 ELSE EncLen(q[n]) + Consumed(q, n - 1)
RestStrictlyDecreases == [][(rest' # rest) => Total(seq) - Consumed(seq, rest') < Total(seq) - Consumed(seq, rest)]_vars
EveryByteOnce == (closed /\ rest = Len(seq)) => Consumed(seq, rest) = Total(seq)
OnlyLastOpenEnded == \A i \in 1..(Len(seq) - 1) : HasLen(seq[i].k, seq[i].fl)

Emit == (EmitOn /\ closed /\ rest = 0) => PrintT(ToJson(seq))
View == <<seq, closed, rest>>
=============================================================================
