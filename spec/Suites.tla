------------------------------- MODULE Suites -------------------------------
(***************************************************************************)
(* Cipher-suite resolution (tlexport/cipher_suite_parser.py).               *)
(* Registry : code point -> IANA name as a token sequence (generated from   *)
(*            the frozen registry copy data/iana_tls_cipher_suites.json,    *)
(*            module SuitesData).                                           *)
(* Denote   : an independent denotation of a name, read off the tokens      *)
(*            that follow WITH (or TLS for the 0x13xx suites): bulk cipher, *)
(*            mode, key length, MAC, PRF/HKDF hash, AEAD-ness, tag length.  *)
(* TLC enumerates all 65 536 code points (one initial state each), checks   *)
(* the well-formedness invariants on every registered name and prints the   *)
(* denotation table that the conformance step compares the real resolver    *)
(* against, code point by code point.                                       *)
(***************************************************************************)
EXTENDS Naturals, Sequences, FiniteSets, TLC, Json, SuitesData

VARIABLE code
Init == code \in 0..65535
Next == UNCHANGED code
Spec == Init /\ [][Next]_code

Registered(c) == c \in DOMAIN Registry
Index(s, t) == CHOOSE i \in 1..Len(s) : s[i] = t
Has(s, t) == \E i \in 1..Len(s) : s[i] = t

\* the part of the name that describes the record protection
ProtPart(s) == IF Has(s, "WITH") THEN SubSeq(s, Index(s, "WITH") + 1, Len(s)) ELSE SubSeq(s, 2, Len(s))
IsMac(t) == t \in {"MD5", "SHA", "SHA256", "SHA384"}
MacOf(c) == IF c # <<>> /\ IsMac(c[Len(c)]) THEN c[Len(c)] ELSE ""
NoMac(c) == IF MacOf(c) = "" THEN c ELSE SubSeq(c, 1, Len(c) - 1)
TagOf(c) == IF c # <<>> /\ c[Len(c)] = "8" THEN 8 ELSE 16
NoTag(c) == IF TagOf(c) = 8 THEN SubSeq(c, 1, Len(c) - 1) ELSE c

Unsupported == [cipher |-> "unsupported", mode |-> "", keylen |-> 0, mac |-> "", prf |-> "", tag |-> 0, aead |-> FALSE]
Denote(s) ==
  LET t0 == ProtPart(s)
      mac == MacOf(t0)
      t1 == NoMac(t0)
      tag == TagOf(t1)
      c == NoTag(t1)
      export == Has(s, "EXPORT") \/ Has(s, "EXPORT1024")
      D(cipher, mode, keylen) ==
        LET aead == mode \in {"GCM", "CCM", "POLY1305"} IN
        IF export \/ (tag = 8 /\ mode # "CCM") \/ (aead /\ mac \notin {"", "SHA256", "SHA384"}) \/ (~aead /\ mac = "")
        THEN Unsupported
        ELSE [cipher |-> cipher, mode |-> mode, keylen |-> keylen, mac |-> IF aead THEN "" ELSE mac,
              prf |-> IF mac = "SHA384" THEN "SHA384" ELSE "SHA256", tag |-> tag, aead |-> aead]
  IN IF s[1] # "TLS" THEN Unsupported
     ELSE IF c = <<"RC4", "128">> THEN D("RC4", "STREAM", 16)
     ELSE IF c = <<"3DES", "EDE", "CBC">> THEN D("3DES", "CBC", 24)
     ELSE IF c = <<"IDEA", "CBC">> THEN D("IDEA", "CBC", 16)
     ELSE IF Len(c) = 3 /\ c[1] \in {"AES", "CAMELLIA"} /\ c[2] \in {"128", "256"} /\ c[3] \in {"CBC", "GCM", "CCM"}
          THEN D(c[1], c[3], IF c[2] = "128" THEN 16 ELSE 32)
     ELSE IF c = <<"CHACHA20", "POLY1305">> THEN D("CHACHA20", "POLY1305", 32)
     ELSE Unsupported

Den(c) == IF Registered(c) THEN Denote(Registry[c]) ELSE Unsupported

(* well-formedness of the denotation over the whole registry *)
WellFormed ==
  LET d == Den(code) IN
  d.cipher # "unsupported" =>
    /\ d.keylen \in {16, 24, 32}
    /\ (d.aead => d.prf \in {"SHA256", "SHA384"} /\ d.mac = "")
    /\ (~d.aead => d.mac \in {"MD5", "SHA", "SHA256", "SHA384"} /\ d.tag = 16)
    /\ (d.tag = 8 => d.mode = "CCM")
    /\ (d.cipher = "3DES" => d.keylen = 24) /\ (d.cipher \in {"RC4", "IDEA"} => d.keylen = 16) /\ (d.cipher = "CHACHA20" => d.keylen = 32)
    /\ (d.mode = "STREAM" <=> d.cipher = "RC4") /\ (d.mode = "POLY1305" <=> d.cipher = "CHACHA20")
    /\ (d.prf = "SHA384" => d.keylen = 32 \/ d.cipher \in {"CAMELLIA", "AES"})
\* outside the registry nothing is denoted
OutsideUnsupported == ~Registered(code) => Den(code).cipher = "unsupported"
Emit == Registered(code) => PrintT(ToJson([code |-> code, d |-> Den(code)]))
=============================================================================
