------------------------------- MODULE KeyLog -------------------------------
(***************************************************************************)
(* How secrets reach the sessions: keylog_reader (line acceptance), the     *)
(* accumulation in run() (file first, then every decryption-secrets block   *)
(* in file order while packets are being read), and the lookup times        *)
(* (TLS: at decrypt(), after the whole capture was read; QUIC: when the     *)
(* ClientHello / ServerHello CRYPTO data is processed).                     *)
(* A delivery variant of a fixed set of secrets = order of the lines x      *)
(* decorations (comment / blank / unrelated label / unrelated client random *)
(* / exact duplicate lines, CRLF, upper-case hex) x sources (file, one or   *)
(* several DSBs, file + DSB) x DSB positions.  TLC enumerates the variants  *)
(* and checks that the effective map (client random, label) -> secret seen  *)
(* by each connection is the same for all of them.                          *)
(***************************************************************************)
EXTENDS Naturals, Sequences, FiniteSets, SequencesExt, TLC

CONSTANTS DecorKinds,     \* decoration kinds enumerated (subset of {"comment","blank","otherlabel","othercr","earlysame","cutunused"})
          NLines,         \* number of distinct valid lines of the connection (labels 1..NLines, secret of label i = i)
          Cases, Eols     \* hex cases (upper?) and line ends (CRLF?) enumerated: BOOLEAN, or {TRUE} in the quick configuration (neither changes a line's kind)

Lines == 1..NLines
\* a physical line: [kind, lab, upper] ; kinds: "valid" | "comment" | "blank" | "otherlabel" | "othercr" | "dup"
Valid(l, up) == [kind |-> "valid", lab |-> l, upper |-> up]
Decor == { [kind |-> k, lab |-> 0, upper |-> FALSE] : k \in {"comment", "blank", "otherlabel", "othercr", "earlysame", "cutunused"} }
\* "cutunused": like "earlysame", but the value is cut short (odd number of hex digits, no line end): the writer was interrupted in a line TLExport
\*              does not need -- the reader's pattern accepts any number of hex digits, nothing may decode a value it does not use
\* "earlysame": a label the connection does not use (0-RTT / exporter secret) WITH ITS OWN client random: accepted, never usable

VARIABLES proto,         \* "tls12" | "tls13" | "quic"
          perm,          \* order of the valid lines
          decor,         \* decoration lines inserted (each after position decor[i].at)
          upper, crlf,   \* hex case, line ends
          dupOf,         \* 0 or a label whose line is repeated at the end
          split,         \* lines 1..split go to source A, the rest to source B
          dupEach,       \* every valid line is written twice in a row
          overlap,       \* source B repeats the whole log (A holds a prefix of it) instead of holding the rest
          srcA, srcB     \* where a source is delivered: "file" | "dsbpre" (before the interface description block) | "dsb0" (before the
                         \* packets) | "dsb1" (between handshake and data) | "dsb2" (after everything)
vars == <<proto, perm, decor, upper, crlf, dupOf, dupEach, overlap, split, srcA, srcB>>

Perms == { p \in [1..NLines -> Lines] : \A i, j \in 1..NLines : i # j => p[i] # p[j] }
RECURSIVE Doubled(_)
Doubled(t) == IF t = <<>> THEN <<>> ELSE <<Head(t), Head(t)>> \o Doubled(Tail(t))
Text0 == [i \in 1..NLines |-> Valid(perm[i], upper)]
          \o (IF dupOf = 0 THEN <<>> ELSE <<Valid(dupOf, upper)>>)
Text == IF dupEach THEN Doubled(Text0) ELSE Text0          \* every line written twice in a row (a set delivered as a multiset)
\* decoration lines are placed before, between and after the valid lines
DecorSeq == SetToSeq(decor)
WithDecor == LET n == Len(DecorSeq)
                 D(i) == [kind |-> DecorSeq[i], lab |-> 0, upper |-> FALSE]
             IN (IF n >= 1 THEN <<D(1)>> ELSE <<>>) \o SubSeq(Text, 1, 1) \o (IF n >= 2 THEN <<D(2)>> ELSE <<>>)
                \o SubSeq(Text, 2, Len(Text)) \o [i \in 1..(IF n > 2 THEN n - 2 ELSE 0) |-> D(i + 2)]

\* keylog_reader.get_key_from_line (repaired: hex digits of either case); CR is removed before splitting into lines
Accepted(line) == line.kind \in {"valid", "otherlabel", "othercr", "earlysame", "cutunused"}
\* which accepted lines a connection uses: those with its client random and a label it knows
Usable(line) == line.kind = "valid"

Order(src) == CASE src = "file" -> 0 [] src = "dsbpre" -> 1 [] src = "dsb0" -> 1 [] src = "dsb1" -> 2 [] src = "dsb2" -> 3
\* the keylog list at a given moment = file (if any) then the DSBs read so far, in file order
Cut == IF split > Len(WithDecor) THEN Len(WithDecor) ELSE split
A == SubSeq(WithDecor, 1, Cut)
B == IF overlap THEN WithDecor ELSE SubSeq(WithDecor, Cut + 1, Len(WithDecor))
ListAt(moment) ==  \* moment: 1 = while the handshake packets are processed, 3 = after the whole capture was read
  LET first == IF Order(srcA) <= Order(srcB) THEN <<srcA, A>> ELSE <<srcB, B>>
      second == IF Order(srcA) <= Order(srcB) THEN <<srcB, B>> ELSE <<srcA, A>>
      take(s) == IF Order(s[1]) <= moment THEN SelectSeq(s[2], Accepted) ELSE <<>>
  IN take(first) \o take(second)
LookupMoment == IF proto = "quic" THEN 1 ELSE 3
\* effective secret per label: TLS <= 1.2 takes the first matching line, the TLS 1.3 / QUIC derivations loop over all (last wins)
Effective(l) == LET m == SelectSeq(ListAt(LookupMoment), LAMBDA x : Usable(x) /\ x.lab = l) IN
                IF m = <<>> THEN 0 ELSE l     \* all lines of a label carry the same secret (a set of secrets, not conflicting ones)

Init == /\ proto \in {"tls12", "tls13", "quic"} /\ perm \in Perms /\ decor \in SUBSET DecorKinds
        /\ upper \in Cases /\ crlf \in Eols /\ dupOf \in 0..NLines /\ dupEach \in BOOLEAN /\ overlap \in BOOLEAN
        /\ split \in 0..(NLines + 1) /\ srcA \in {"file", "dsbpre", "dsb0", "dsb1", "dsb2"} /\ srcB \in {"dsb0", "dsb1", "dsb2"}
        /\ (proto = "quic" => Order(srcA) <= 1 /\ Order(srcB) <= 1)       \* QUIC: the secrets must precede the packets (as the property says)
Next == UNCHANGED vars
Spec == Init /\ [][Next]_vars

\* C09: every variant yields the full set of secrets, i.e. the same effective map
EffectiveKeysDependOnlyOnSet == \A l \in Lines : Effective(l) = l
=============================================================================
