----------------------------- MODULE MC_Checksum -----------------------------
(* Apalache: at the true width, for every 32-bit sum two folds of the repaired loop reach a 16-bit value that is
   the end-around-carry sum; and the original loop bound (> 65536) is refuted (it stops at exactly 65536). *)
EXTENDS Integers
VARIABLES
  \* @type: Int;
  s
Fold(x) == (x \div 65536) + (x % 65536)
LoopFixed(x) == LET a == IF x > 65535 THEN Fold(x) ELSE x
                    b == IF a > 65535 THEN Fold(a) ELSE a
                    c == IF b > 65535 THEN Fold(b) ELSE b IN c
LoopOrig(x) == LET a == IF x > 65536 THEN Fold(x) ELSE x
                   b == IF a > 65536 THEN Fold(a) ELSE a
                   c == IF b > 65536 THEN Fold(b) ELSE b IN c
EndAround(x) == IF x = 0 THEN 0 ELSE ((x - 1) % 65535) + 1
Init == s \in Int /\ 0 <= s /\ s < 4294967296
Next == UNCHANGED s
FixedOk == LoopFixed(s) <= 65535 /\ LoopFixed(s) = EndAround(s)
OrigOk == LoopOrig(s) <= 65535
==============================================================================
