------------------------------ MODULE Checksum ------------------------------
(***************************************************************************)
(* The Internet checksum as computed by tlexport/checksums.py               *)
(* (ones_complement_checksum: sum of 16-bit words, a fold loop, complement) *)
(* and the -c gate of the run loop (tlexport/main.py): a TCP/UDP packet is  *)
(* dispatched iff the verification succeeds.                                *)
(* Word width scaled to W bits for TLC (every carry pattern of <= MaxWords  *)
(* words is enumerated, including sums of exactly 2^W and sums that fold    *)
(* through 2^W); MC_Checksum.tla states the fold facts at the true width    *)
(* for Apalache.                                                            *)
(***************************************************************************)
EXTENDS Naturals, Sequences, FiniteSets, TLC

CONSTANTS W, MaxWords, MaxPkts
B == 2 ^ W
Mask == B - 1

(* the code's fold loop, as a step relation so that termination is a property of the state graph *)
VARIABLES words, sum, phase, result, pkts, taken
vars == <<words, sum, phase, result, pkts, taken>>

EndAround(s) == IF s = 0 THEN 0 ELSE ((s - 1) % Mask) + 1       \* RFC 1071: one's-complement (end-around-carry) sum
Complement(x) == Mask - x

AddWord == /\ phase = "sum" /\ Len(words) < MaxWords
           /\ \E w \in 0..Mask : words' = Append(words, w) /\ sum' = sum + w
           /\ UNCHANGED <<phase, result, pkts, taken>>
StartFold == /\ phase = "sum" /\ phase' = "fold" /\ UNCHANGED <<words, sum, result, pkts, taken>>
\* `while checksum > 0xFFFF: checksum = (checksum >> 16) + (checksum & 0xFFFF)`   (repaired bound)
FoldStep == /\ phase = "fold" /\ sum > Mask
            /\ sum' = (sum \div B) + (sum % B)
            /\ UNCHANGED <<words, phase, result, pkts, taken>>
Finish == /\ phase = "fold" /\ sum <= Mask
          /\ result' = Complement(sum) /\ phase' = "done"
          /\ UNCHANGED <<words, sum, pkts, taken>>

(* the gate: packets with a verdict; with -c exactly the bad ones are skipped *)
Gate == /\ phase = "done" /\ Len(pkts) < MaxPkts
        /\ \E bad \in BOOLEAN :
             /\ pkts' = Append(pkts, bad)
             /\ taken' = IF bad THEN taken ELSE Append(taken, Len(pkts) + 1)
        /\ UNCHANGED <<words, sum, phase, result>>

Init == words = <<>> /\ sum = 0 /\ phase = "sum" /\ result = 0 /\ pkts = <<>> /\ taken = <<>>
Next == AddWord \/ StartFold \/ FoldStep \/ Finish \/ Gate
Spec == Init /\ [][Next]_vars

RECURSIVE SumOf(_)
SumOf(s) == IF s = <<>> THEN 0 ELSE Head(s) + SumOf(Tail(s))
(* contract *)
\* the fold never leaves a value that does not fit a word (the original loop bound `> 65536` left exactly 2^16 unfolded)
FoldInRange == phase = "done" => result \in 0..Mask
\* the result is the RFC 1071 checksum of the words
ResultIsRfc == phase = "done" => result = Complement(EndAround(SumOf(words)))
\* every fold step strictly decreases the sum: the loop terminates
FoldDecreases == [][(phase = "fold" /\ phase' = "fold" /\ sum' # sum) => sum' < sum]_vars
\* -c: exactly the packets with a bad checksum are ignored, the others are processed in order
GateExact == taken = SelectSeq([i \in 1..Len(pkts) |-> i], LAMBDA i : ~pkts[i])
=============================================================================
