------------------------------- MODULE TcpOut -------------------------------
(***************************************************************************)
(* The synthetic TCP conversation OutputBuilder.build emits for one         *)
(* decrypted TLS session (tlexport/output_builder.py): three-way handshake  *)
(* at the first record, then per record of n bytes that was carried by k    *)
(* input packets: k-1 parts of floor(n/k) bytes and the remainder, each as  *)
(* a PSH/ACK data packet followed by a pure ACK of the peer, sequence and   *)
(* acknowledgement numbers from two counters, part i stamped with the       *)
(* timestamp of carrier i.                                                  *)
(* Environment: any sequence of <= MaxRec decrypted records [d, n, k].      *)
(***************************************************************************)
EXTENDS Naturals, Sequences, FiniteSets, SequencesExt, FiniteSetsExt, TLC, Json

CONSTANTS MaxLen, MaxK, MaxRec, EmitOn
Dir == {"c", "s"}
Other(d) == IF d = "c" THEN "s" ELSE "c"

VARIABLES recs,      \* records handed to the builder so far: [d, n, k]
          seq,       \* next sequence number per direction (client_seq / server_seq)
          hsDone, out   \* out: packets [d, fl, seq, ack, len, rec, carrier]
vars == <<recs, seq, hsDone, out>>

Pkt(d, fl, s, a, len, rec, car) == [d |-> d, fl |-> fl, seq |-> s, ack |-> a, len |-> len, rec |-> rec, car |-> car]

Handshake(rec) == << Pkt("c", "S", 0, 0, 0, rec, 1), Pkt("s", "SA", 0, 1, 0, rec, 1), Pkt("c", "A", 1, 1, 0, rec, 1) >>

\* build_server_packet / build_client_packet: the split
PartLen(n, k) == n \div k
NParts(n, k) == IF (k - 1) * PartLen(n, k) < n THEN k ELSE k - 1       \* `if last_len < record_len: parts.append(rest)`
PartSize(n, k, i) == IF i < k THEN PartLen(n, k) ELSE n - (k - 1) * PartLen(n, k)

RECURSIVE Emit(_, _, _, _, _, _)
Emit(d, n, k, i, sq, rec) ==       \* packets of parts i..NParts and the counter of d afterwards
  IF i > NParts(n, k) THEN [pk |-> <<>>, sq |-> sq]
  ELSE LET ln == PartSize(n, k, i)
           rest == Emit(d, n, k, i + 1, sq + ln, rec)
       IN [pk |-> << Pkt(d, "PA", sq, seq[Other(d)], ln, rec, i),
                    Pkt(Other(d), "A", seq[Other(d)], sq + ln, 0, rec, i) >> \o rest.pk,
           sq |-> rest.sq]

Build == /\ Len(recs) < MaxRec
         /\ \E d \in Dir, n \in 0..MaxLen, k \in 1..MaxK :
              LET ri == Len(recs) + 1
                  e  == Emit(d, n, k, 1, seq[d], ri)
              IN /\ recs' = Append(recs, [d |-> d, n |-> n, k |-> k])
                 /\ out' = out \o (IF hsDone THEN <<>> ELSE Handshake(ri)) \o e.pk
                 /\ seq' = [seq EXCEPT ![d] = e.sq]
                 /\ hsDone' = TRUE

Init == recs = <<>> /\ seq = [d \in Dir |-> 1] /\ hsDone = FALSE /\ out = <<>>
Next == Build
Spec == Init /\ [][Next]_vars

(* ---------------- contract (C06 / C07) ---------------- *)
Data(i) == out[i].fl = "PA"
SumLenBefore(i, d) == LET S == { j \in 1..(i - 1) : out[j].d = d /\ Data(j) } IN
                      FoldSet(LAMBDA j, acc : acc + out[j].len, 0, S)
HandshakeFirst == out # <<>> => /\ Len(out) >= 3
                                /\ out[1].fl = "S" /\ out[1].d = "c" /\ out[1].seq = 0
                                /\ out[2].fl = "SA" /\ out[2].d = "s" /\ out[2].seq = 0 /\ out[2].ack = 1
                                /\ out[3].fl = "A" /\ out[3].d = "c" /\ out[3].seq = 1 /\ out[3].ack = 1
                                /\ \A i \in 4..Len(out) : out[i].fl \in {"PA", "A"}
\* gap-free, non-overlapping sequence space: every data packet starts where the previous data of its direction ended
GapFree == \A i \in 1..Len(out) : Data(i) => out[i].seq = 1 + SumLenBefore(i, out[i].d)
\* acknowledgements are consistent: every packet acknowledges exactly what the peer has sent before it
AcksConsistent == \A i \in 4..Len(out) : out[i].ack = 1 + SumLenBefore(i, Other(out[i].d))
\* a record of n bytes carried by k input packets becomes at most k segments whose lengths add up to n
PartsOf(r) == { i \in 1..Len(out) : Data(i) /\ out[i].rec = r }
RecordSplit == \A r \in 1..Len(recs) :
                 /\ Cardinality(PartsOf(r)) <= recs[r].k
                 /\ FoldSet(LAMBDA j, acc : acc + out[j].len, 0, PartsOf(r)) = recs[r].n
                 /\ \A i \in PartsOf(r) : out[i].d = recs[r].d /\ out[i].car \in 1..recs[r].k    \* C07: stamped by a carrier of that record
\* nothing at all is emitted for a session without records
SilentWhenEmpty == recs = <<>> => out = <<>>
\* the handshake carries the time of the first record's first carrier
HandshakeTime == out # <<>> => \A i \in 1..3 : out[i].rec = 1 /\ out[i].car = 1

Emitter == (EmitOn /\ Len(recs) = MaxRec) => PrintT(ToJson([recs |-> recs, npk |-> Len(out)]))
=============================================================================
