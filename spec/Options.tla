------------------------------- MODULE Options -------------------------------
(***************************************************************************)
(* Server-port selection and port mapping: arg_parser_init / MapPortsAction *)
(* / get_port_map / the module-level server_ports list (tlexport/main.py),  *)
(* Session.set_client_and_server_ports, QuicSession.set_server_client_      *)
(* address and the port choice in both output builders.                     *)
(* TLC enumerates every combination of -p lists, -m forms and flows over a  *)
(* small port universe and compares the code-shaped result with the         *)
(* documented behaviour.                                                    *)
(***************************************************************************)
EXTENDS Naturals, Sequences, FiniteSets, TLC, Json

CONSTANTS ExtraPorts,     \* ports that may be given with -p, e.g. {8443, 4433}
          ServerSide,     \* server ports of the flows, e.g. {443, 8443, 4433, 5000, 44330}
          ClientPorts,    \* e.g. {40000, 50000}
          MapForms        \* -m forms: [kind |-> "absent" | "bare" | "pairs", pairs |-> sequence of <<server port, output port>>]

VARIABLES popt, mopt, proto, sport, cport, firstFromServer
vars == <<popt, mopt, proto, sport, cport, firstFromServer>>

Init == /\ popt \in SUBSET ExtraPorts /\ mopt \in MapForms /\ proto \in {"tls", "quic"}
        /\ sport \in ServerSide /\ cport \in ClientPorts /\ firstFromServer \in BOOLEAN
Next == UNCHANGED vars
Spec == Init /\ [][Next]_vars

(* ---------------- the code ---------------- *)
ServerPorts == {443, 44330} \cup (IF popt = {} THEN {443} ELSE popt)          \* server_ports.extend(args.serverports), default [443]
KeepOriginal == mopt.kind = "absent"                                                \* set_defaults(keep_original_ports=True); MapPortsAction clears it
PortMap == IF mopt.kind = "absent" THEN {} ELSE IF mopt.kind = "bare" THEN {<<443, 8080>>} ELSE { mopt.pairs[i] : i \in 1..Len(mopt.pairs) }
Mapped(p) == IF \E e \in PortMap : e[1] = p THEN (CHOOSE e \in PortMap : e[1] = p)[2] ELSE 8080
\* first packet seen decides the roles: its source is the server iff its source port is a server port
FirstSrc == IF firstFromServer THEN sport ELSE cport
FirstDst == IF firstFromServer THEN cport ELSE sport
Selected == proto = "quic" \/ FirstSrc \in ServerPorts \/ FirstDst \in ServerPorts       \* handle_packet creates a Session only then
RoleServer == IF FirstSrc \in ServerPorts THEN FirstSrc ELSE FirstDst
RoleClient == IF FirstSrc \in ServerPorts THEN FirstDst ELSE FirstSrc
CodeOut == IF ~Selected THEN <<"none", 0, 0>>
           ELSE <<"exported", RoleClient, IF KeepOriginal THEN RoleServer ELSE Mapped(RoleServer)>>

(* ---------------- documented behaviour (C10) ---------------- *)
Watched == {443, 44330} \cup popt
DocOut == IF proto = "tls" /\ sport \notin Watched /\ cport \notin Watched THEN <<"none", 0, 0>>
          ELSE <<"exported", cport, IF mopt.kind = "absent" THEN sport ELSE Mapped(sport)>>
\* flows in scope: the true server side uses a watched port (TLS), client ports are not server ports;
\* a QUIC capture starts with the client's Initial
InScope == cport \notin Watched /\ (proto = "quic" => ~firstFromServer) /\ (proto = "quic" \/ sport \in Watched \/ TRUE)
AsDocumented == InScope => CodeOut = DocOut
=============================================================================
