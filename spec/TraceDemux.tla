----------------------------- MODULE TraceDemux -----------------------------
(***************************************************************************)
(* Trace validation of the `match` hook against the contract of Demux.tla:  *)
(* the k-th event reports the session (index in the sessions / quic_sessions*)
(* list, or a newly created one) chosen for the k-th captured packet; the   *)
(* harness knows which connection every captured packet belongs to.         *)
(* Contract: a session is created at most once per connection, and every    *)
(* packet is handed to the session its own connection created.              *)
(***************************************************************************)
EXTENDS Naturals, Sequences, FiniteSets, TLC, Json

Traces == JsonDeserialize("traces.json")
N == Len(Traces)
VARIABLES tid, l, tlsS, quicS
vars == <<tid, l, tlsS, quicS>>
T == Traces[tid]
Ev == T.events[l]
Own == T.owner[l]

Match == LET lst == IF Ev.tcp THEN tlsS ELSE quicS IN
         IF Ev.new
         THEN /\ \A j \in 1..Len(lst) : lst[j] # Own                 \* no second session for a connection
              /\ Ev.idx = Len(lst)
              /\ IF Ev.tcp THEN tlsS' = Append(tlsS, Own) /\ UNCHANGED quicS ELSE quicS' = Append(quicS, Own) /\ UNCHANGED tlsS
         ELSE /\ Ev.idx + 1 <= Len(lst) /\ lst[Ev.idx + 1] = Own      \* the session of the packet's own connection
              /\ UNCHANGED <<tlsS, quicS>>

Step == /\ l <= Len(T.events) /\ Match /\ l' = l + 1 /\ UNCHANGED tid
Done == l = Len(T.events) + 1
NextTrace == /\ (Done => TLCSet(1, TLCGet(1) \cup {T.id}))
             /\ TLCSet(2, [TLCGet(2) EXCEPT ![tid] = IF @ > l THEN @ ELSE l])
             /\ IF tid < N THEN tid' = tid + 1 /\ l' = 1 /\ tlsS' = <<>> /\ quicS' = <<>> ELSE UNCHANGED vars
Init == tid = 1 /\ l = 1 /\ tlsS = <<>> /\ quicS = <<>> /\ TLCSet(1, {}) /\ TLCSet(2, [i \in 1..N |-> 0])
Next == Step \/ NextTrace
Spec == Init /\ [][Next]_vars
Post == PrintT(ToJson([accepted |-> TLCGet(1), progress |-> TLCGet(2)]))
=============================================================================
