-------------------------------- MODULE Quic --------------------------------
(***************************************************************************)
(* One QUIC v1 connection as TLExport's QuicSession sees it                 *)
(* (tlexport/quic/quic_session.py, quic_tls_parser.py, quic_output_builder) *)
(*   - Initial keys from the DCID of the first datagram (again after Retry) *)
(*   - CRYPTO stream reassembly per direction and space (update_session)    *)
(*   - ClientHello -> client random + FIRST OFFERED suite; ServerHello ->   *)
(*     negotiated suite; either -> set_tls_decryptors (needs the secrets)   *)
(*   - 0-RTT keys from the suite known when the packet arrives              *)
(*   - 1-RTT key generations: a key-phase flip of a direction advances that *)
(*     direction's epoch, generations are derived lazily (check_key_epoch)  *)
(*   - STREAM frames of successfully decrypted packets go to the output     *)
(*     buffer; the builder emits one UDP datagram per captured datagram     *)
(* Environment: both endpoints following RFC 9000/9001: handshake script    *)
(* with options (Retry, 0-RTT, ClientHello split over <= 3 CRYPTO frames in *)
(* any order over 1-2 packets, coalescing), then <= MaxApp application      *)
(* datagrams by either side with 1-2 packets, 0-2 STREAM frames each and    *)
(* other frames around them, key updates initiated by either side           *)
(* (<= MaxGen generations) -- a side may update only after the peer has     *)
(* answered in its current phase (RFC 9001 6.1), the peer follows on its    *)
(* next packet.                                                             *)
(* Retransmission (AllowRetx): the client's timer fires before the server's  *)
(* answer is captured and one Initial packet of the ClientHello flight is    *)
(* sent again (new packet number, same CRYPTO frames); the stale frame stays *)
(* in the code's buffer for ever and must not block the frames behind it.    *)
(* Noise (NoisePhases # {}): a short-header datagram on the connection's own  *)
(* 4-tuple that no key opens (damaged in transit, forged, a stateless       *)
(* reset).  check_key_epoch runs BEFORE the AEAD check, so such a packet    *)
(* whose unmasked key-phase bit differs from the last one seen advances the *)
(* direction's epoch although nothing was authenticated (RFC 9001 6.3 says  *)
(* discard and do not update): the rest of that direction stays dark.       *)
(* Documented deviation, outside what C02 claims; "same"-phase noise is     *)
(* harmless and must stay so.                                               *)
(* Named deviation: KF_EarlySuiteGuess (0-RTT packet arrives before the     *)
(* ServerHello while the first offered suite differs from the negotiated).  *)
(* Not modelled, accepted by the check as the same finding: the guessed     *)
(* suite also selects the header-protection cipher of that 0-RTT packet, so *)
(* a garbage packet number may enter the application-data space (shared     *)
(* with 1-RTT) before authentication and later CLIENT 1-RTT packets may be  *)
(* lost too -- which ones depends on the garbage value.                     *)
(***************************************************************************)
EXTENDS Naturals, Sequences, FiniteSets, SequencesExt, TLC, Json

CONSTANTS AllowLate, AllowLateAcrossKu,   \* network reordering of application datagrams (within / across a key update)
          SuiteSet,        \* negotiated suites to explore, e.g. {"1301","1303"}
          OfferFirst,      \* what the ClientHello lists first: {"same","other","grease"}
          Splits,          \* ClientHello CRYPTO splits: set of sequences (orders of piece indices), e.g. {<<1>>,<<2,1>>}
          MaxApp, MaxGen, AllowEarlyGuess, Retries, ZeroRtts, EmitOn,
          NoisePhases,     \* subset of {"same","flip"}: unmasked key-phase bit of an undecryptable short-header datagram relative to the sender's
          AllowRetx,       \* the client retransmits an Initial packet of its ClientHello flight (new packet number, same CRYPTO frames)
          ExtraShapes      \* further application-phase datagram shapes (subset of LateShapes below)

Dir == {"c", "s"}
Other(d) == IF d = "c" THEN "s" ELSE "c"
\* (hash, aead, key length) class of a suite: 0-RTT / handshake keys derived under a guessed suite work iff classes agree
Class(s) == CASE s = "1301" -> "a" [] s = "1302" -> "b" [] s = "1303" -> "c" [] s = "1304" -> "d" [] OTHER -> "none"
OtherSuite(s) == IF s = "1301" THEN "1302" ELSE "1301"

VARIABLES suite, first, split, twoPkts, retry, zrtt, coalesce, cfApp, sfApp, z3,   \* world
          pc, chSent, retried, sgen, acked, nApp, nextId, dgId, expect, held, sn, retx,  \* environment / ground truth
          initFrom, off, frags, haveCR, suiteSeen, tlsKeys, earlyKeys,   \* QuicSession / QuicTlsSession
          epoch, lastPhase, gens, outbuf,
          kfTaken, hist

world == <<suite, first, split, twoPkts, retry, zrtt, coalesce, cfApp, sfApp, z3>>
envv  == <<pc, chSent, retried, sgen, acked, nApp, nextId, dgId, expect, held, sn, retx>>
implv == <<initFrom, off, frags, haveCR, suiteSeen, tlsKeys, earlyKeys, epoch, lastPhase, gens, outbuf>>
vars  == <<world, envv, implv, kfTaken, hist>>

FirstSuite == IF first = "same" THEN suite ELSE IF first = "other" THEN OtherSuite(suite) ELSE "grease"
NPieces == Len(split)

(* ---------------- frames and packets ---------------- *)
\* frame: [ft, a, b]  crypto: a = message ("CH","SH","SF","CF"), b = piece number (CH only, else 1)
\*                    stream: a = payload id        other: ack / ping / pad / ncid / done / maxdata / dgram
F(ft, a, b) == [ft |-> ft, a |-> a, b |-> b]
P(t, d, gen, frames) == [t |-> t, d |-> d, gen |-> gen, frames |-> frames]

(* ---------------- the code: CRYPTO reassembly (QuicTlsSession.update_session) ---------------- *)
\* pieces of the ClientHello are numbered 1..NPieces in stream order; `off` = number of contiguous pieces appended.
\* The repaired loop appends every buffered frame that continues the stream (before the repair it skipped the
\* element following each removed one).
RECURSIVE Drain(_, _)
Drain(o, fs) == IF (o + 1) \in fs THEN Drain(o + 1, fs \ {o + 1}) ELSE [o |-> o, fs |-> fs]

(* ---------------- the code: decrypt_packet success ---------------- *)
SndInit == IF retried THEN "retry" ELSE "odcid"      \* what the sender derives its Initial keys from
HsOk      == tlsKeys # "none" /\ Class(tlsKeys) = Class(suite)
EarlyOk   == earlyKeys # "none" /\ Class(earlyKeys) = Class(suite)
AppOk(p, e) == tlsKeys # "none" /\ Class(tlsKeys) = Class(suite) /\ e = p.gen

(* handle one packet: returns the new implementation state as a record (pure), so a datagram = fold over packets *)
St == [initFrom |-> initFrom, off |-> off, frags |-> frags, haveCR |-> haveCR, suiteSeen |-> suiteSeen,
       tlsKeys |-> tlsKeys, earlyKeys |-> earlyKeys, epoch |-> epoch, lastPhase |-> lastPhase, gens |-> gens, outbuf |-> outbuf]

Install(s) == \* set_tls_decryptors after new TLS data: needs client random and a suite
  IF s.haveCR /\ s.suiteSeen \notin {"none", "grease"}
  THEN [s EXCEPT !.tlsKeys = s.suiteSeen, !.earlyKeys = IF zrtt THEN s.suiteSeen ELSE "none", !.gens = 1]
  ELSE s

RECURSIVE Frames(_, _, _, _)
Frames(s, p, i, dg) ==
  IF i > Len(p.frames) THEN s
  ELSE LET f == p.frames[i] IN
    IF f.ft = "stream" THEN Frames([s EXCEPT !.outbuf = Append(@, [dg |-> dg, d |-> p.d, id |-> f.a])], p, i + 1, dg)
    ELSE IF f.ft = "crypto" THEN
      IF f.a = "CH" THEN
        LET dr == Drain(s.off, IF f.b > s.off THEN s.frags \cup {f.b} ELSE s.frags)   \* a retransmitted piece that is already part of the
                                                                                     \* stream stays in the buffer for ever and changes nothing
            complete == dr.o = NPieces
            s1 == [s EXCEPT !.off = dr.o, !.frags = dr.fs]
            s2 == IF complete /\ s.off < NPieces                      \* the ClientHello message became complete now
                  THEN Install([s1 EXCEPT !.haveCR = TRUE, !.suiteSeen = FirstSuite]) ELSE s1
        IN Frames(s2, p, i + 1, dg)
      ELSE IF f.a = "SH" THEN Frames(Install([s EXCEPT !.suiteSeen = suite]), p, i + 1, dg)
      ELSE Frames(s, p, i + 1, dg)                                    \* EncryptedExtensions ..., Finished: no key change
    ELSE Frames(s, p, i + 1, dg)

HandlePkt(s, p, dg) ==
  IF p.t = "R" THEN [s EXCEPT !.off = 0, !.frags = {}, !.haveCR = FALSE, !.suiteSeen = "none", !.tlsKeys = "none",
                              !.earlyKeys = "none", !.initFrom = "none"]      \* Retry: TLS state and all keys forgotten
  ELSE IF p.t = "I" THEN (IF s.initFrom = SndInit THEN Frames(s, p, 1, dg) ELSE s)
  ELSE IF p.t = "H" THEN (IF s.tlsKeys # "none" /\ Class(s.tlsKeys) = Class(suite) THEN Frames(s, p, 1, dg) ELSE s)
  ELSE IF p.t = "Z" THEN (IF s.earlyKeys # "none" /\ Class(s.earlyKeys) = Class(suite) THEN Frames(s, p, 1, dg) ELSE s)
  ELSE \* 1-RTT (and "N": noise with a short header): check_key_epoch, then decrypt with the generation of that direction
    IF s.tlsKeys = "none" THEN s
    ELSE LET ph == p.gen % 2
             e1 == IF s.lastPhase[p.d] # ph THEN s.epoch[p.d] + 1 ELSE s.epoch[p.d]
             s1 == [s EXCEPT !.epoch[p.d] = e1, !.lastPhase[p.d] = ph,
                             !.gens = IF e1 >= @ THEN e1 + 1 ELSE @]
         IN IF p.t # "N" /\ Class(s.tlsKeys) = Class(suite) /\ e1 = p.gen THEN Frames(s1, p, 1, dg) ELSE s1

RECURSIVE HandleDg(_, _, _, _)
HandleDg(s, pkts, i, dg) ==
  IF i > Len(pkts) THEN s
  ELSE LET s0 == IF i = 1 /\ s.initFrom = "none" THEN [s EXCEPT !.initFrom = SndInit] ELSE s
       IN HandleDg(HandlePkt(s0, pkts[i], dg), pkts, i + 1, dg)

Apply(s) == /\ initFrom' = s.initFrom /\ off' = s.off /\ frags' = s.frags /\ haveCR' = s.haveCR /\ suiteSeen' = s.suiteSeen
            /\ tlsKeys' = s.tlsKeys /\ earlyKeys' = s.earlyKeys /\ epoch' = s.epoch /\ lastPhase' = s.lastPhase
            /\ gens' = s.gens /\ outbuf' = s.outbuf

(* ---------------- environment ---------------- *)
StreamIds(pkts) == LET fr == [i \in 1..Len(pkts) |-> SelectSeq(pkts[i].frames, LAMBDA f : f.ft = "stream")]
                       flat == FlattenSeq(fr)
                   IN [j \in 1..Len(flat) |-> flat[j].a]

Send(d, pkts) ==
  /\ Apply(HandleDg(St, pkts, 1, dgId))
  /\ dgId' = dgId + 1
  /\ expect' = IF StreamIds(pkts) # <<>> THEN Append(expect, [dg |-> dgId, d |-> d, ids |-> StreamIds(pkts)]) ELSE expect
  /\ hist' = Append(hist, [d |-> d, pkts |-> pkts, sn |-> sn])
  /\ sn' = sn + 1

ChFrames(order) == [i \in 1..Len(order) |-> F("crypto", "CH", order[i])]
\* a 0-RTT packet carries one STREAM frame, or (z3) three: the head and the tail of a first request on one stream and a second request on another
\* stream (so that a later frame of the packet has a SMALLER stream offset than an earlier one)
ZPkt(id) == P("Z", "c", 0, IF z3 THEN <<F("stream", id, 0), F("stream", id + 1, 0), F("stream", id + 2, 0)>> ELSE <<F("stream", id, 0)>>)
ZN == IF zrtt THEN (IF z3 THEN 3 ELSE 1) ELSE 0

\* pc: 1 = client Initial datagram(s) carrying the ClientHello, 2 = Retry, 3 = server flight, 4 = client finish,
\*     5 = server HANDSHAKE_DONE, 6 = application phase
ClientHelloStep ==
  /\ pc = 1
  /\ LET fr == ChFrames(split)
         half == (Len(fr) + 1) \div 2
         z == IF zrtt THEN <<ZPkt(nextId)>> ELSE <<>>
         last == ~twoPkts \/ chSent = 1
         pkts == IF ~twoPkts THEN <<P("I", "c", 0, fr)>> \o z
                 ELSE IF chSent = 0 THEN <<P("I", "c", 0, SubSeq(fr, 1, half))>>
                 ELSE <<P("I", "c", 0, SubSeq(fr, half + 1, Len(fr)))>> \o z
     IN /\ Send("c", pkts)
        /\ chSent' = chSent + 1
        /\ nextId' = IF last THEN nextId + ZN ELSE nextId
        /\ pc' = IF ~last THEN 1 ELSE IF retry /\ ~retried THEN 2 ELSE 3
  /\ UNCHANGED <<world, retx, retried, sgen, acked, nApp, kfTaken, held>>

RetryStep ==
  /\ pc = 2
  /\ Send("s", <<P("R", "s", 0, <<>>)>>)
  /\ retried' = TRUE /\ chSent' = 0 /\ pc' = 1
  /\ UNCHANGED <<world, retx, sgen, acked, nApp, nextId, kfTaken, held>>

ServerFlight ==
  /\ pc = 3
  /\ LET i == P("I", "s", 0, <<F("other", "ack", 0), F("crypto", "SH", 1)>>)
         h == P("H", "s", 0, <<F("crypto", "SF", 1)>>)
         shSent == \E k \in 1..Len(hist) : hist[k].d = "s" /\ hist[k].pkts[1].t = "I"
         \* 0.5-RTT data: the server may send 1-RTT packets right behind its Handshake packets, in the same datagram
         a == IF sfApp THEN <<P("A", "s", 0, <<F("stream", nextId, 0)>>)>> ELSE <<>>
     IN /\ IF coalesce THEN Send("s", <<i, h>> \o a) /\ pc' = 4
           ELSE IF ~shSent THEN Send("s", <<i>>) /\ pc' = 3
           ELSE Send("s", <<h>> \o a) /\ pc' = 4
        /\ nextId' = IF sfApp /\ (coalesce \/ shSent) THEN nextId + 1 ELSE nextId
  /\ UNCHANGED <<world, retx, chSent, retried, sgen, acked, nApp, kfTaken, held>>

ClientFinish ==
  /\ pc = 4
  /\ Send("c", <<P("I", "c", 0, <<F("other", "ack", 0)>>), P("H", "c", 0, <<F("other", "ack", 0), F("crypto", "CF", 1)>>)>>
               \o (IF cfApp THEN <<P("A", "c", 0, <<F("stream", nextId, 0)>>)>> ELSE <<>>))
  /\ nextId' = IF cfApp THEN nextId + 1 ELSE nextId
  /\ pc' = 5 /\ UNCHANGED <<world, retx, chSent, retried, sgen, acked, nApp, kfTaken, held>>

ServerDone ==
  /\ pc = 5
  /\ Send("s", <<P("A", "s", 0, <<F("other", "done", 0), F("other", "ncid", 0)>>)>>)
  /\ pc' = 6 /\ UNCHANGED <<world, retx, chSent, retried, sgen, acked, nApp, nextId, kfTaken, held>>

\* application datagram shapes: lists of packets given as lists of frame kinds
Shapes == { <<<<"stream">>>>, <<<<"ack", "stream", "pad">>>>, <<<<"stream", "ping", "stream">>>>,
            <<<<"ack">>>>, <<<<"maxdata", "stream", "stream", "ack">>>>, <<<<"dgram", "ncid">>>>,
            <<<<"stream", "fin0">>>>,      \* fin0: a STREAM frame of length 0 that only carries FIN (closes a stream after its last data)
            <<<<"fin0", "ack">>>>,         \* ... alone in its datagram: nothing to export
            <<<<"nst">>>> }                \* nst: a post-handshake CRYPTO frame in a 1-RTT packet (NewSessionTicket): never exported without -a
\* what else travels in the application phase: a late Handshake / Initial packet that only acknowledges (its keys are still installed -- nothing
\* discards them) coalesced IN FRONT of the 1-RTT packet, and CONNECTION_CLOSE, behind which the peer's data still in flight keeps arriving
LateShapes == { <<<<"hsack">>, <<"stream">>>>, <<<<"inack">>, <<"ack", "stream">>>>, <<<<"close">>>>, <<<<"stream", "close">>>> }
AllShapes == Shapes \cup ExtraShapes
\* (a short-header packet has no length field and is always the last packet of its datagram: one 1-RTT packet each)
RECURSIVE MkFrames(_, _, _)
MkFrames(kinds, i, id) ==
  IF i > Len(kinds) THEN <<>>
  ELSE IF kinds[i] = "stream" THEN <<F("stream", id, 0)>> \o MkFrames(kinds, i + 1, id + 1)
  ELSE <<F("other", kinds[i], 0)>> \o MkFrames(kinds, i + 1, id)
NStream(kinds) == Len(SelectSeq(kinds, LAMBDA k : k = "stream"))
RECURSIVE MkPkts(_, _, _, _)
MkPkts(shape, i, d, id) ==
  IF i > Len(shape) THEN <<>>
  ELSE IF shape[i] = <<"hsack">> THEN <<P("H", d, 0, <<F("other", "ack", 0)>>)>> \o MkPkts(shape, i + 1, d, id)
  ELSE IF shape[i] = <<"inack">> THEN <<P("I", d, 0, <<F("other", "ack", 0)>>)>> \o MkPkts(shape, i + 1, d, id)
  ELSE <<P("A", d, sgen[d], MkFrames(shape[i], 1, id))>> \o MkPkts(shape, i + 1, d, id + NStream(shape[i]))
RECURSIVE TotalStream(_, _)
TotalStream(shape, i) == IF i > Len(shape) THEN 0 ELSE NStream(shape[i]) + TotalStream(shape, i + 1)

AppDatagram ==
  /\ pc = 6 /\ nApp < MaxApp
  /\ \E d \in Dir, shape \in AllShapes :
       /\ Send(d, MkPkts(shape, 1, d, nextId))
       /\ nextId' = nextId + TotalStream(shape, 1)
       \* the peer has now seen a packet of generation sgen[d]: it may follow / initiate
       /\ acked' = [acked EXCEPT ![d] = sgen[d]]
  /\ nApp' = nApp + 1
  /\ UNCHANGED <<world, retx, pc, chSent, retried, sgen, kfTaken, held>>

\* the client's retransmission timer fires before the server's answer is captured: one Initial packet of the ClientHello flight is sent
\* again -- a NEW packet (next packet number) with the SAME CRYPTO frames (RFC 9002 6.2.4); between the two packets of a split ClientHello
\* (the second one was lost before the capture point and both are sent again) or after the whole flight
RetransmitCh ==
  /\ AllowRetx /\ retx = 0
  /\ \/ pc = 1 /\ twoPkts /\ chSent = 1
     \/ pc = 3 /\ ~(\E k \in 1..Len(hist) : hist[k].d = "s" /\ hist[k].pkts[1].t = "I")      \* the ServerHello has not been captured yet
  /\ LET fr == ChFrames(split)
         half == (Len(fr) + 1) \div 2
     IN \E which \in (IF twoPkts /\ pc = 3 THEN {1, 2} ELSE {1}) :
          Send("c", <<P("I", "c", 0, IF ~twoPkts THEN fr ELSE IF which = 1 THEN SubSeq(fr, 1, half) ELSE SubSeq(fr, half + 1, Len(fr)))>>)
  /\ retx' = 1
  /\ UNCHANGED <<world, pc, chSent, retried, sgen, acked, nApp, nextId, kfTaken, held>>

\* the network delays one application datagram: it is sent now (takes its packet number now) but captured later
HoldDatagram ==
  /\ AllowLate /\ pc = 6 /\ nApp < MaxApp /\ held = <<>>
  /\ \E d \in Dir, shape \in { sh \in Shapes : TotalStream(sh, 1) > 0 } :
       /\ held' = <<[d |-> d, pkts |-> MkPkts(shape, 1, d, nextId), sn |-> sn, gen |-> sgen[d]]>>
       /\ nextId' = nextId + TotalStream(shape, 1)
  /\ sn' = sn + 1 /\ nApp' = nApp + 1
  /\ UNCHANGED <<world, retx, pc, chSent, retried, sgen, acked, dgId, expect, implv, kfTaken, hist>>
ReleaseHeld ==
  /\ held # <<>> /\ LET h == held[1] IN
     /\ (AllowLateAcrossKu \/ sgen[h.d] = h.gen)          \* KF_LateAcrossKeyUpdate: a packet of the old phase after packets of the new one
     /\ Apply(HandleDg(St, h.pkts, 1, dgId))
     /\ dgId' = dgId + 1
     /\ expect' = IF StreamIds(h.pkts) # <<>> THEN Append(expect, [dg |-> dgId, d |-> h.d, ids |-> StreamIds(h.pkts)]) ELSE expect
     /\ hist' = Append(hist, [d |-> h.d, pkts |-> h.pkts, sn |-> h.sn])
     /\ acked' = [acked EXCEPT ![h.d] = IF @ > h.gen THEN @ ELSE h.gen]
  /\ held' = <<>>
  /\ UNCHANGED <<world, retx, pc, chSent, retried, sgen, nApp, nextId, sn, kfTaken>>

\* an undecryptable short-header datagram of direction d (consumes one unit of the application budget)
NoiseDatagram ==
  /\ NoisePhases # {} /\ pc = 6 /\ nApp < MaxApp
  /\ \E d \in Dir, ph \in NoisePhases :
       Send(d, <<P("N", d, IF ph = "same" THEN sgen[d] ELSE sgen[d] + 1, <<F("noise", ph, 0)>>)>>)
  /\ nApp' = nApp + 1
  /\ UNCHANGED <<world, retx, pc, chSent, retried, sgen, acked, nextId, kfTaken, held>>

\* key update: initiate (own gen = peer's gen, peer has acknowledged this generation) or follow (peer is ahead)
KeyUpdate ==
  /\ pc = 6 /\ nApp < MaxApp
  /\ \E d \in Dir :
       /\ sgen[d] < MaxGen - 1
       /\ \/ sgen[Other(d)] > sgen[d] /\ acked[Other(d)] = sgen[Other(d)]                 \* follow
          \/ sgen[Other(d)] = sgen[d] /\ acked[d] = sgen[d] /\ acked[Other(d)] = sgen[d]  \* initiate: the acknowledgement of a
                                       \* packet of this generation can only have come in a packet of this generation
       /\ sgen' = [sgen EXCEPT ![d] = @ + 1]
  /\ UNCHANGED <<world, retx, pc, chSent, retried, acked, nApp, nextId, dgId, expect, implv, kfTaken, hist, held, sn>>

Next == ClientHelloStep \/ RetryStep \/ ServerFlight \/ ClientFinish \/ ServerDone \/ AppDatagram \/ KeyUpdate \/ HoldDatagram \/ ReleaseHeld
        \/ NoiseDatagram \/ RetransmitCh

Init == /\ suite \in SuiteSet /\ first \in OfferFirst /\ split \in Splits /\ twoPkts \in BOOLEAN
        /\ retry \in Retries /\ zrtt \in ZeroRtts /\ coalesce \in BOOLEAN /\ cfApp \in BOOLEAN /\ sfApp \in BOOLEAN
        /\ z3 \in (IF zrtt THEN BOOLEAN ELSE {FALSE})
        /\ (twoPkts => Len(split) >= 2)
        /\ (AllowEarlyGuess \/ ~zrtt \/ first = "same")            \* KF_EarlySuiteGuess excluded unless allowed
        /\ pc = 1 /\ chSent = 0 /\ retried = FALSE /\ sgen = [d \in Dir |-> 0] /\ acked = [d \in Dir |-> 0] /\ nApp = 0 /\ nextId = 1 /\ dgId = 1 /\ expect = <<>> /\ held = <<>> /\ sn = 1 /\ retx = 0
        /\ initFrom = "none" /\ off = 0 /\ frags = {} /\ haveCR = FALSE /\ suiteSeen = "none" /\ tlsKeys = "none"
        /\ earlyKeys = "none" /\ epoch = [d \in Dir |-> 0] /\ lastPhase = [d \in Dir |-> 0] /\ gens = 0 /\ outbuf = <<>>
        /\ kfTaken = (zrtt /\ first # "same") /\ hist = <<>>
Spec == Init /\ [][Next]_vars

(* ---------------- the builder (repaired: one output datagram per source datagram) ---------------- *)
RECURSIVE Group(_, _)
Group(buf, acc) ==
  IF buf = <<>> THEN acc
  ELSE LET h == Head(buf) IN
       IF acc # <<>> /\ acc[Len(acc)].dg = h.dg
       THEN Group(Tail(buf), [acc EXCEPT ![Len(acc)].ids = Append(@, h.id)])
       ELSE Group(Tail(buf), Append(acc, [dg |-> h.dg, d |-> h.d, ids |-> <<h.id>>]))
Output == Group(outbuf, <<>>)

(* ---------------- contract ---------------- *)
Done == pc = 6 /\ nApp = MaxApp /\ held = <<>>
\* C02: one output datagram per captured datagram that carried stream data, same direction, data in frame order
DgramsEqualStreamData == Output = expect
\* a prefix at every moment (C08)
OutputIsPrefix == IsPrefix(Output, expect)
\* ... per direction (what remains true when noise makes one direction go dark)
OfDir(seq, d) == SelectSeq(seq, LAMBDA x : x.d = d)
PerDirPrefix == \A d \in Dir : IsPrefix(OfDir(Output, d), OfDir(expect, d))
\* CRYPTO reassembly: contiguous offset never exceeds what was sent, complete once all pieces arrived
CryptoOk == off <= NPieces /\ (pc >= 3 => off = NPieces /\ frags = {} /\ haveCR)
\* key generations: each direction's epoch equals the sender's generation once a packet of it was seen
EpochOk == pc = 6 => \A d \in Dir : epoch[d] <= sgen[d] /\ gens <= MaxGen
KeysOk == pc >= 4 => tlsKeys = suite
ExportMonotone == [][IsPrefix(Output, Output')]_vars

View == <<world, envv, implv, kfTaken>>
Emit == (EmitOn /\ Done) =>
  PrintT(ToJson([suite |-> suite, first |-> first, split |-> split, twoPkts |-> twoPkts, retry |-> retry, zrtt |-> zrtt,
                 coalesce |-> coalesce, cfApp |-> cfApp, sfApp |-> sfApp, z3 |-> z3, hist |-> hist, out |-> Output, kf |-> kfTaken]))
=============================================================================
