---------------------------- MODULE TraceTcpOut ----------------------------
(***************************************************************************)
(* Validation of OBSERVED output conversations (the output file is the      *)
(* trace; no hook needed) against the contract of TcpOut.tla:               *)
(*   SYN / SYN-ACK / ACK first, stamped with a carrier time of the first    *)
(*   exported record of a direction; then, PER DIRECTION and in that        *)
(*   direction's record order, for each exported record at most k data      *)
(*   packets whose lengths add up to its n bytes, each stamped with the     *)
(*   time of one of the record's k carriers; sequence and acknowledgement   *)
(*   numbers gap-free and mutually consistent.                              *)
(* The relative order of records of DIFFERENT directions is not prescribed: *)
(* with full-duplex traffic a record that spans several packets completes   *)
(* after a record of the other direction that was sent later.               *)
(* Ground truth (recs per direction: plaintext length, carrier times) comes *)
(* from the harness that built the capture.  Times are indices of input     *)
(* packets (-1 = no input packet has that time).                            *)
(***************************************************************************)
EXTENDS Naturals, Integers, Sequences, FiniteSets, TLC, Json

Traces == JsonDeserialize("traces.json")   \* [id, recs: [c: [[n, cars]], s: [[n, cars]]], pkts: [[d, fl, seq, ack, len, ts]]]
N == Len(Traces)
Dir == {"c", "s"}
Other(d) == IF d = "c" THEN "s" ELSE "c"

VARIABLES tid, l, ri, used, parts, nxt
vars == <<tid, l, ri, used, parts, nxt>>
T == Traces[tid]
P == T.pkts[l]
R(d) == T.recs[d]
NR(d) == Len(R(d))

CarSet(d, r) == { R(d)[r].cars[j] : j \in 1..Len(R(d)[r].cars) }
\* first record of direction d that is not empty
FirstNonEmpty(d, r) == r \in 1..NR(d) /\ R(d)[r].n > 0 /\ \A j \in 1..(r - 1) : R(d)[j].n = 0

Hs == /\ l <= 3
      /\ P.fl = (CASE l = 1 -> "S" [] l = 2 -> "SA" [] OTHER -> "A")
      /\ P.d = (IF l = 2 THEN "s" ELSE "c") /\ P.len = 0
      /\ P.seq = (IF l = 3 THEN 1 ELSE 0) /\ P.ack = (IF l = 1 THEN 0 ELSE 1)
      \* "the time of the first exported record": the very time the first data packet of the conversation carries (the handshake is never
      \* stamped later than the data it introduces) -- or, when records without data come first, the time of a carrier of such a record
      /\ \/ Len(T.pkts) >= 4 /\ T.pkts[4].fl = "PA" /\ P.ts = T.pkts[4].ts
         \/ \E d \in Dir : \E r \in 1..NR(d) : P.ts \in CarSet(d, r) /\ \A j \in 1..r : R(d)[j].n = 0
         \/ ~(Len(T.pkts) >= 4 /\ T.pkts[4].fl = "PA") /\ \E d \in Dir : \E r \in 1..NR(d) : P.ts \in CarSet(d, r) /\ \A j \in 1..(r - 1) : R(d)[j].n = 0
      /\ UNCHANGED <<ri, used, parts, nxt>>

\* the record of direction d a data packet belongs to: the current one, or a later one when everything in between is complete
Reachable(d, r) == \/ r = ri[d]
                   \/ /\ r > ri[d] /\ r <= NR(d) /\ (IF ri[d] = 0 THEN TRUE ELSE used[d] = R(d)[ri[d]].n)
                      /\ \A j \in (ri[d] + 1)..(r - 1) : R(d)[j].n = 0
DataPkt == /\ l > 3 /\ P.fl = "PA"
           /\ LET d == P.d IN
              \E r \in (IF ri[d] = 0 THEN 1 ELSE ri[d])..NR(d) :
                LET u == IF r = ri[d] THEN used[d] ELSE 0
                    p == IF r = ri[d] THEN parts[d] ELSE 0
                IN /\ Reachable(d, r)
                   /\ u + P.len <= R(d)[r].n
                   /\ p + 1 <= Len(R(d)[r].cars)                  \* at most k segments
                   /\ P.ts \in CarSet(d, r)                         \* C07: time of a carrier of this record
                   /\ P.seq = nxt[d] /\ P.ack = nxt[Other(d)]
                   /\ ri' = [ri EXCEPT ![d] = r] /\ used' = [used EXCEPT ![d] = u + P.len] /\ parts' = [parts EXCEPT ![d] = p + 1]
                   /\ nxt' = [nxt EXCEPT ![d] = @ + P.len]

AckPkt == /\ l > 3 /\ P.fl = "A" /\ P.len = 0
          /\ P.seq = nxt[P.d] /\ P.ack = nxt[Other(P.d)]
          /\ UNCHANGED <<ri, used, parts, nxt>>

Step == /\ l <= Len(T.pkts) /\ (Hs \/ DataPkt \/ AckPkt) /\ l' = l + 1 /\ UNCHANGED tid

\* every record of every direction is completely exported
CompleteDir(d) == \A r \in 1..NR(d) : R(d)[r].n = 0 \/ r < ri[d] \/ (r = ri[d] /\ used[d] = R(d)[r].n)
Done == l = Len(T.pkts) + 1 /\ CompleteDir("c") /\ CompleteDir("s")
Zero == [d \in Dir |-> 0]
Reset == l' = 1 /\ ri' = Zero /\ used' = Zero /\ parts' = Zero /\ nxt' = [d \in Dir |-> 1]
NextTrace == /\ (Done => TLCSet(1, TLCGet(1) \cup {T.id}))
             /\ TLCSet(2, [TLCGet(2) EXCEPT ![tid] = IF @ > l THEN @ ELSE l])
             /\ IF tid < N THEN tid' = tid + 1 /\ Reset ELSE UNCHANGED vars
Init == /\ tid = 1 /\ l = 1 /\ ri = Zero /\ used = Zero /\ parts = Zero /\ nxt = [d \in Dir |-> 1]
        /\ TLCSet(1, {}) /\ TLCSet(2, [i \in 1..N |-> 0])
Next == Step \/ NextTrace
Spec == Init /\ [][Next]_vars
Post == PrintT(ToJson([accepted |-> TLCGet(1), progress |-> TLCGet(2)]))
=============================================================================
