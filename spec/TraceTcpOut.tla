---------------------------- MODULE TraceTcpOut ----------------------------
(***************************************************************************)
(* Validation of OBSERVED output conversations (the output file is the      *)
(* trace; no hook needed) against the contract of TcpOut.tla:               *)
(*   SYN / SYN-ACK / ACK first, stamped with a carrier time of the first    *)
(*   record; then for each exported record, in order, at most k data        *)
(*   packets of its direction whose lengths add up to its n bytes, each     *)
(*   stamped with the time of one of the record's k carriers; sequence and  *)
(*   acknowledgement numbers gap-free and mutually consistent.              *)
(* Ground truth (recs: direction, plaintext length, carrier times) comes    *)
(* from the harness that built the capture.  Times are indices of input     *)
(* packets (-1 = no input packet has that time).                            *)
(***************************************************************************)
EXTENDS Naturals, Integers, Sequences, FiniteSets, TLC, Json

Traces == JsonDeserialize("traces.json")   \* [id, recs: [[d, n, cars: seq of ints]], pkts: [[d, fl, seq, ack, len, ts]]]
N == Len(Traces)
Dir == {"c", "s"}
Other(d) == IF d = "c" THEN "s" ELSE "c"

VARIABLES tid, l, ri, used, parts, nxt
vars == <<tid, l, ri, used, parts, nxt>>
T == Traces[tid]
P == T.pkts[l]
NR == Len(T.recs)

CarSet(r) == { T.recs[r].cars[j] : j \in 1..Len(T.recs[r].cars) }
\* first record that can still take data: skip completely consumed ones (empty records are complete at once)
RECURSIVE Cur(_, _)
Cur(r, u) == IF r <= NR /\ u = T.recs[r].n THEN Cur(r + 1, 0) ELSE r

Hs == /\ l <= 3 /\ NR >= 1
      /\ P.fl = (CASE l = 1 -> "S" [] l = 2 -> "SA" [] OTHER -> "A")
      /\ P.d = (IF l = 2 THEN "s" ELSE "c") /\ P.len = 0
      /\ P.seq = (IF l = 3 THEN 1 ELSE 0) /\ P.ack = (IF l = 1 THEN 0 ELSE 1)
      /\ \E r \in 1..NR : P.ts \in CarSet(r) /\ \A j \in 1..(r - 1) : T.recs[j].n = 0   \* first exported record (empty ones may be skipped)
      /\ UNCHANGED <<ri, used, parts, nxt>>

\* the record a data packet belongs to: the current one, or a later one when everything in between is complete
Reachable(r) == \/ r = ri
                \/ /\ r > ri /\ r <= NR /\ used = T.recs[ri].n
                   /\ \A j \in (ri + 1)..(r - 1) : T.recs[j].n = 0
DataPkt == /\ l > 3 /\ P.fl = "PA"
           /\ \E r \in ri..NR :
                LET u == IF r = ri THEN used ELSE 0
                    p == IF r = ri THEN parts ELSE 0
                IN /\ Reachable(r)
                   /\ P.d = T.recs[r].d
                   /\ u + P.len <= T.recs[r].n
                   /\ p + 1 <= Len(T.recs[r].cars)                 \* at most k segments
                   /\ P.ts \in CarSet(r)                            \* C07: time of a carrier of this record
                   /\ P.seq = nxt[P.d] /\ P.ack = nxt[Other(P.d)]
                   /\ ri' = r /\ used' = u + P.len /\ parts' = p + 1
                   /\ nxt' = [nxt EXCEPT ![P.d] = @ + P.len]

AckPkt == /\ l > 3 /\ P.fl = "A" /\ P.len = 0
          /\ P.seq = nxt[P.d] /\ P.ack = nxt[Other(P.d)]
          /\ UNCHANGED <<ri, used, parts, nxt>>

Step == /\ l <= Len(T.pkts) /\ (Hs \/ DataPkt \/ AckPkt) /\ l' = l + 1 /\ UNCHANGED tid

Complete == Cur(ri, used) = NR + 1 \/ (Len(T.pkts) = 0 /\ \A r \in 1..NR : T.recs[r].n = 0)
Done == l = Len(T.pkts) + 1 /\ Complete
Reset == l' = 1 /\ ri' = 1 /\ used' = 0 /\ parts' = 0 /\ nxt' = [d \in Dir |-> 1]
NextTrace == /\ (Done => TLCSet(1, TLCGet(1) \cup {T.id}))
             /\ TLCSet(2, [TLCGet(2) EXCEPT ![tid] = IF @ > l THEN @ ELSE l])
             /\ IF tid < N THEN tid' = tid + 1 /\ Reset ELSE UNCHANGED vars
Init == /\ tid = 1 /\ l = 1 /\ ri = 1 /\ used = 0 /\ parts = 0 /\ nxt = [d \in Dir |-> 1]
        /\ TLCSet(1, {}) /\ TLCSet(2, [i \in 1..N |-> 0])
Next == Step \/ NextTrace
Spec == Init /\ [][Next]_vars
Post == PrintT(ToJson([accepted |-> TLCGet(1), progress |-> TLCGet(2)]))
=============================================================================
