----------------------------- MODULE TraceQuic -----------------------------
(***************************************************************************)
(* Trace validation of the QuicSession hooks against the contract:          *)
(*  qpn     the reconstructed packet number of a dissected packet equals    *)
(*          the number its sender used; the per-space, per-direction        *)
(*          `largest` is the maximum of the numbers reconstructed so far    *)
(*  qepoch  after a 1-RTT packet of direction d, that direction's key       *)
(*          generation equals the generation its sender protected it with   *)
(*  qcrypto the contiguous CRYPTO offset of a direction/space equals the    *)
(*          longest contiguous prefix of the CRYPTO bytes received so far   *)
(* Ground truth (`pkts`: packets in capture order with direction, space,    *)
(* packet number, encoded length, generation) comes from the harness.       *)
(***************************************************************************)
EXTENDS Naturals, Sequences, FiniteSets, TLC, Json, FiniteSetsExt

Traces == JsonDeserialize("traces.json")
N == Len(Traces)
Dir == {"c", "s"}
Spaces == {"i", "h", "a"}

VARIABLES tid, l, cur, ecur, largest, got, resets
vars == <<tid, l, cur, ecur, largest, got, resets>>
T == Traces[tid]
Ev == T.events[l]
NP == Len(T.pkts)

Pow256(n) == IF n = 1 THEN 256 ELSE IF n = 2 THEN 65536 ELSE IF n = 3 THEN 16777216 ELSE 0   \* 4-byte truncations are compared untruncated

Matches(k) == /\ T.pkts[k].d = Ev.dir /\ T.pkts[k].sp = Ev.space /\ T.pkts[k].pnlen = Ev.pnlen
              /\ (IF Ev.pnlen < 4 THEN T.pkts[k].pn % Pow256(Ev.pnlen) ELSE T.pkts[k].pn) = Ev.trunc

\* Which packet an event belongs to: the earliest not yet matched packet of that direction and space with that encoding.  Packets of ONE space
\* and direction are matched in capture order; across spaces no order is demanded (an implementation may hold packets of one space back --
\* e.g. 0-RTT packets until the ServerHello is known -- without touching what the properties state).
Qpn == /\ Ev.ev = "qpn"
       /\ \E k \in 1..NP :
            /\ k \notin cur /\ Matches(k)
            /\ \A j \in 1..(k - 1) : ~(j \notin cur /\ Matches(j))
            /\ Ev.full = T.pkts[k].pn                               \* RFC 9000 A.3 result = the sender's packet number
            /\ Ev.largest = largest[Ev.dir][Ev.space]                \* largest so far, per space and direction
            \* (WHEN the code raises its `largest` -- at once, or only after the packet was authenticated as RFC 9000 A.3 words it -- is not the
            \*  property's subject: the value it USES for the next packet of the space is, and that is the line above at the next event)
            \* a packet that no key opens (ground truth: `noise`) may or may not count: RFC 9000 A.3 speaks of the largest number "successfully
            \* processed", the unchanged code counts every dissected packet -- either is a function of the input the properties allow
            /\ \E counts \in (IF T.pkts[k].noise THEN BOOLEAN ELSE {TRUE}) :
                 largest' = [largest EXCEPT ![Ev.dir][Ev.space] = IF counts /\ Ev.full > Ev.largest THEN Ev.full ELSE Ev.largest]
            /\ cur' = cur \cup {k}
       /\ UNCHANGED <<ecur, got, resets>>

Qepoch == /\ Ev.ev = "qepoch"
          /\ \E k \in (ecur[Ev.dir] + 1)..NP :
               /\ T.pkts[k].d = Ev.dir /\ T.pkts[k].level = "a"
               /\ \A j \in (ecur[Ev.dir] + 1)..(k - 1) : ~(T.pkts[j].d = Ev.dir /\ T.pkts[j].level = "a")
               /\ (IF Ev.dir = "c" THEN Ev.epoch_c ELSE Ev.epoch_s) = T.pkts[k].gen
               /\ Ev.phase = T.pkts[k].gen % 2
               /\ ecur' = [ecur EXCEPT ![Ev.dir] = k]
          /\ UNCHANGED <<cur, largest, got, resets>>

G0 == [k \in Dir \X {"INITIAL", "HANDSHAKE", "RTT_1", "RTT_O"} |-> {}]
RECURSIVE Contig(_, _)
Contig(ivs, o) == IF \E iv \in ivs : iv[1] <= o /\ iv[1] + iv[2] > o
                  THEN LET iv == CHOOSE iv \in ivs : iv[1] <= o /\ iv[1] + iv[2] > o IN Contig(ivs, iv[1] + iv[2])
                  ELSE o
\* a Retry makes the client start its CRYPTO stream over (the TLS state of the session is discarded): allowed once,
\* only in traces of connections that contained a Retry
Qcrypto == /\ Ev.ev = "qcrypto"
           /\ \E reset \in (IF T.retry /\ resets = 0 THEN BOOLEAN ELSE {FALSE}) :
                LET key == <<Ev.dir, Ev.space>>
                    g0  == IF reset THEN G0 ELSE got
                    ivs == g0[key] \cup {<<Ev.off, Ev.len>>}
                IN /\ Ev.contig = Contig(ivs, 0)
                   /\ got' = [g0 EXCEPT ![key] = ivs]
                   /\ resets' = IF reset THEN 1 ELSE resets
           /\ UNCHANGED <<cur, ecur, largest>>

Step == /\ l <= Len(T.events) /\ (Qpn \/ Qepoch \/ Qcrypto) /\ l' = l + 1 /\ UNCHANGED tid
Done == l = Len(T.events) + 1
Z2 == [d \in Dir |-> [s \in Spaces |-> 0]]
Reset == l' = 1 /\ cur' = {} /\ ecur' = [d \in Dir |-> 0] /\ largest' = Z2 /\ got' = G0 /\ resets' = 0
NextTrace == /\ (Done => TLCSet(1, TLCGet(1) \cup {T.id}))
             /\ TLCSet(2, [TLCGet(2) EXCEPT ![tid] = IF @ > l THEN @ ELSE l])
             /\ IF tid < N THEN tid' = tid + 1 /\ Reset ELSE UNCHANGED vars
Init == /\ tid = 1 /\ l = 1 /\ cur = {} /\ ecur = [d \in Dir |-> 0] /\ largest = Z2 /\ got = G0 /\ resets = 0
        /\ TLCSet(1, {}) /\ TLCSet(2, [i \in 1..N |-> 0])
Next == Step \/ NextTrace
Spec == Init /\ [][Next]_vars
Post == PrintT(ToJson([accepted |-> TLCGet(1), progress |-> TLCGet(2)]))
=============================================================================
