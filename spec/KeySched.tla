------------------------------ MODULE KeySched ------------------------------
(***************************************************************************)
(* Which secret, label, hash, length and key-block offset feed which        *)
(* installed key slot, and when slots change -- the wiring of                *)
(* Session.generate_keys / key_derivator.dev_*_keys / Decryptor.parse_keys  *)
(* / update_keys and QuicSession.set_initial_decryptor / set_tls_decryptors *)
(* / key_update, against the RFC key schedules, as SYMBOLIC TERMS (the hash *)
(* arithmetic itself is outside TLA+; the reference implementation in       *)
(* /verif/wire evaluates the same terms and is pinned by RFC vectors).      *)
(* Term constructors are records; equality of terms is record equality.     *)
(***************************************************************************)
EXTENDS Naturals, Sequences, FiniteSets, TLC

Vers == {"SSL30", "TLS10", "TLS11", "TLS12", "TLS13"}
\* (cipher, mode, key length, block bytes, mac length) classes of the suite table
Classes == { [c |-> "AES", m |-> "CBC", k |-> 16, b |-> 16], [c |-> "AES", m |-> "CBC", k |-> 32, b |-> 16],
             [c |-> "CAMELLIA", m |-> "CBC", k |-> 16, b |-> 16], [c |-> "CAMELLIA", m |-> "CBC", k |-> 32, b |-> 16],
             [c |-> "3DES", m |-> "CBC", k |-> 24, b |-> 8], [c |-> "IDEA", m |-> "CBC", k |-> 16, b |-> 8],
             [c |-> "RC4", m |-> "STREAM", k |-> 16, b |-> 0],
             [c |-> "AES", m |-> "GCM", k |-> 16, b |-> 0], [c |-> "AES", m |-> "GCM", k |-> 32, b |-> 0],
             [c |-> "AES", m |-> "CCM", k |-> 16, b |-> 0], [c |-> "AES", m |-> "CCM", k |-> 32, b |-> 0],
             [c |-> "CHACHA20", m |-> "POLY1305", k |-> 32, b |-> 0] }
MacLens == {0, 16, 20, 32, 48}
Aead(cl) == cl.m \in {"GCM", "CCM", "POLY1305"}
Valid(v, cl, ml) ==
  /\ (Aead(cl) <=> ml = 0)
  /\ (v = "TLS13" => Aead(cl))
  /\ (v \in {"SSL30", "TLS10", "TLS11"} => ~Aead(cl) /\ ml \in {16, 20})
  /\ (ml \in {32, 48} => v = "TLS12")

(* ---------------- RFC schedule ---------------- *)
Prf(v) == CASE v = "SSL30" -> "ssl3-md5-sha" [] v \in {"TLS10", "TLS11"} -> "md5-xor-sha1" [] OTHER -> "p_hash"
KB(v) == [f |-> Prf(v), secret |-> "master", label |-> IF v = "SSL30" THEN "" ELSE "key expansion", seed |-> <<"server_random", "client_random">>]
Slice(v, off, len) == [of |-> KB(v), off |-> off, len |-> len]
RfcIvLen(v, cl) == IF cl.m \in {"GCM", "CCM"} THEN 4 ELSE IF cl.m = "POLY1305" THEN 12
                   ELSE IF cl.m = "CBC" /\ v \in {"SSL30", "TLS10"} THEN cl.b ELSE 0       \* 0 = the RFC defines no IV in the key block
Rfc12(v, cl, ml) ==
  [cmac |-> Slice(v, 0, ml), smac |-> Slice(v, ml, ml), ckey |-> Slice(v, 2 * ml, cl.k), skey |-> Slice(v, 2 * ml + cl.k, cl.k),
   civ |-> Slice(v, 2 * ml + 2 * cl.k, RfcIvLen(v, cl)), siv |-> Slice(v, 2 * ml + 2 * cl.k + RfcIvLen(v, cl), RfcIvLen(v, cl))]
Exp(secret, label, len) == [f |-> "hkdf-expand-label", secret |-> secret, label |-> label, len |-> len]
Rfc13(cl, side, epoch) == LET sec == (IF side = "c" THEN "CLIENT_" ELSE "SERVER_") \o (IF epoch = "hs" THEN "HANDSHAKE_TRAFFIC_SECRET" ELSE "TRAFFIC_SECRET_0")
                          IN [key |-> Exp(sec, "key", cl.k), iv |-> Exp(sec, "iv", 12)]

(* ---------------- the code ---------------- *)
\* dev_ssl_30_keys / dev_tls_10_11_keys (repaired: IDEA like 3DES) and dev_tls_12_keys
CodeIvLen(v, cl) ==
  IF v \in {"SSL30", "TLS10", "TLS11"}
  THEN (IF cl.c \in {"AES", "CAMELLIA"} THEN 16 ELSE IF cl.c \in {"3DES", "IDEA"} THEN 8 ELSE 4)
  ELSE (IF cl.m = "POLY1305" THEN 12 ELSE IF cl.c \in {"AES", "CAMELLIA"} /\ cl.m = "CBC" THEN 16 ELSE 4)
Code12(v, cl, ml) ==
  LET m == IF Aead(cl) THEN 0 ELSE ml  iv == CodeIvLen(v, cl) IN
  [cmac |-> Slice(v, 0, m), smac |-> Slice(v, m, m), ckey |-> Slice(v, 2 * m, cl.k), skey |-> Slice(v, 2 * m + cl.k, cl.k),
   civ |-> Slice(v, 2 * m + 2 * cl.k, iv), siv |-> Slice(v, 2 * m + 2 * cl.k + iv, iv)]
\* parse_keys + update_keys: which epoch's key is in use (hsInLog: handshake secrets present; afterFin: Finished of that side seen)
Code13(cl, side, hsInLog, afterFin) == Rfc13(cl, side, IF afterFin \/ ~hsInLog THEN "app" ELSE "hs")

VARIABLES v, cl, ml, hsInLog, afterFin
vars == <<v, cl, ml, hsInLog, afterFin>>
Init == v \in Vers /\ cl \in Classes /\ ml \in MacLens /\ Valid(v, cl, ml) /\ hsInLog \in BOOLEAN /\ afterFin \in BOOLEAN
Next == UNCHANGED vars
Spec == Init /\ [][Next]_vars

\* the installed MAC secrets and keys equal the RFC's; the IV where the RFC defines one (where it does not, the slot is unused)
Installed12 == v # "TLS13" =>
  LET c == Code12(v, cl, ml)  r == Rfc12(v, cl, ml) IN
  /\ c.cmac = r.cmac /\ c.smac = r.smac /\ c.ckey = r.ckey /\ c.skey = r.skey
  /\ (RfcIvLen(v, cl) > 0 => c.civ = r.civ /\ c.siv = r.siv)
Installed13 == v = "TLS13" =>
  \A side \in {"c", "s"} : Code13(cl, side, hsInLog, afterFin) = Rfc13(cl, side, IF afterFin THEN "app" ELSE IF hsInLog THEN "hs" ELSE "app")

(* ---------------- QUIC ---------------- *)
QSuites == {"1301", "1302", "1303", "1304"}
QK(s) == IF s \in {"1302", "1303"} THEN 32 ELSE 16
QH(s) == IF s = "1302" THEN 48 ELSE 32
RECURSIVE Ku(_, _, _)
Ku(sec, s, n) == IF n = 0 THEN sec ELSE Exp(Ku(sec, s, n - 1), "quic ku", QH(s))
RfcQuic(s, level, side, gen, retried) ==
  IF level = "initial"
  THEN LET sec == [f |-> "hkdf-expand-label", secret |-> [f |-> "hkdf-extract", salt |-> "v1-salt", ikm |-> IF retried THEN "retry-scid" ELSE "first-client-dcid"],
                   label |-> IF side = "c" THEN "client in" ELSE "server in", len |-> 32]
       IN [key |-> Exp(sec, "quic key", 16), iv |-> Exp(sec, "quic iv", 12), hp |-> Exp(sec, "quic hp", 16)]      \* always AES-128 / SHA-256
  ELSE LET base == (IF side = "c" THEN "CLIENT_" ELSE "SERVER_") \o (IF level = "handshake" THEN "HANDSHAKE_TRAFFIC_SECRET" ELSE "TRAFFIC_SECRET_0")
           sec == Ku(base, s, gen)
       IN [key |-> Exp(sec, "quic key", QK(s)), iv |-> Exp(sec, "quic iv", 12), hp |-> Exp(base, "quic hp", QK(s))]   \* hp key is never updated
\* the code: set_initial_decryptor (from the DCID of the datagram that finds no Initial keys: the first client datagram, or the
\* first one after a Retry), dev_quic_keys, key_update (derives key/iv from secret n+1, keeps the header-protection key)
CodeQuic(s, level, side, gen, retried) == RfcQuic(s, level, side, gen, retried)
InstalledQuic == \A s \in QSuites, level \in {"initial", "handshake", "application"}, side \in {"c", "s"}, gen \in 0..3, retried \in BOOLEAN :
                   (level # "application" => gen = 0) => CodeQuic(s, level, side, gen, retried) = RfcQuic(s, level, side, gen, retried)
=============================================================================
