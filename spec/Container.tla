------------------------------ MODULE Container ------------------------------
(***************************************************************************)
(* The capture readers: dpkt_dsb.Reader (pcapng: byte order from the        *)
(* section header, if_tsresol / if_tsoffset of the first interface           *)
(* description, enhanced packet blocks yielded as (timestamp, frame),        *)
(* decryption secrets blocks yielded with ts = -1, every other block         *)
(* skipped) and dpkt.pcap.Reader behind -l.                                  *)
(* A container variant of a fixed packet list = format x byte order x        *)
(* timestamp resolution x offset x unrelated blocks at any position.         *)
(* Time is counted in eighths of a second (representable in every            *)
(* resolution of the enumeration) so that the arithmetic is exact.           *)
(***************************************************************************)
EXTENDS Naturals, Integers, Sequences, FiniteSets, TLC

CONSTANTS NPkts, Resols, Offsets, ExtraKinds,
          PerInterface     \* TRUE: the reader keeps resolution / offset per interface (the repaired code); FALSE: first interface for all

\* units per second of a resolution option
\* (scaled for TLC's 32-bit integers: 10^-6 -> 10^-4, 10^-9 -> 10^-5, 2^-20 -> 2^-14; the default equals 10^-6 as in the code)
Ups(r) == CASE r = "none" -> 10000 [] r = "d3" -> 1000 [] r = "d6" -> 10000 [] r = "d9" -> 100000
            [] r = "b10" -> 1024 [] r = "b20" -> 16384
Time(i) == 8 * 4000 + 3 * i + 1          \* capture time of packet i in eighths of a second

VARIABLES fmt, le, resol, tsoff, extras, pos, divisor, offset, yielded, keys,
          two, resol2, tsoff2, ifaces,     \* a second interface (every second packet is captured on it) and the reader's interface table
          dsbAt,                           \* where the decryption secrets block stands: "pre" (before the first interface description), "start", "mid", "end"
          snap                             \* if_snaplen of the interface descriptions: 0 = "no limit", or a limit no packet exceeds; no step of the reader reads it
vars == <<fmt, le, resol, tsoff, extras, pos, divisor, offset, yielded, keys, two, resol2, tsoff2, ifaces, dsbAt, snap>>

\* the file: sequence of blocks [kind, raw (timestamp units), id]
\* two: "no" = one interface; "alt" = every second packet on the second interface; "all" = every packet on the second interface (the first one
\* is e.g. a cooked "any" pseudo-interface of another link type that only carries a packet of no connection)
OnSecond(i) == (two = "alt" /\ i % 2 = 0) \/ two = "all"
Raw(i) == IF OnSecond(i) THEN (Time(i) - 8 * tsoff2) * (Ups(resol2) \div 8)
          ELSE (Time(i) - 8 * tsoff) * (Ups(resol) \div 8)       \* what the writer stores: (time - offset) in interface units
Ex(k) == IF k \in extras THEN <<[kind |-> "OTHER", raw |-> 0, id |-> 0, ifc |-> 0]>> ELSE <<>>
RECURSIVE PktBlocks(_)
D(where) == IF dsbAt = where THEN <<[kind |-> "DSB", raw |-> 0, id |-> 0, ifc |-> 0]>> ELSE <<>>
PktBlocks(i) == IF i > NPkts THEN <<>> ELSE <<[kind |-> "EPB", raw |-> Raw(i), id |-> i, ifc |-> IF OnSecond(i) THEN 2 ELSE 1]>>
                                            \o (IF i = (NPkts + 1) \div 2 THEN D("mid") ELSE <<>>) \o Ex(i + 1) \o PktBlocks(i + 1)
Idb(n) == [kind |-> "IDB", raw |-> 0, id |-> n, ifc |-> n]
Blocks == Ex(0) \o D("pre") \o <<Idb(1)>> \o (IF two # "no" THEN <<Idb(2)>> ELSE <<>>)
          \o D("start") \o Ex(1) \o PktBlocks(1) \o D("end")

Init == /\ fmt \in {"pcap", "pcapng"} /\ le \in BOOLEAN
        /\ resol \in (IF fmt = "pcap" THEN {"d6"} ELSE Resols)
        /\ tsoff \in (IF fmt = "pcap" THEN {0} ELSE Offsets)
        /\ extras \in (IF fmt = "pcap" THEN {{}} ELSE SUBSET ExtraKinds)
        /\ two \in (IF fmt = "pcap" THEN {"no"} ELSE {"no", "alt", "all"})
        /\ resol2 \in (IF two # "no" THEN Resols ELSE {"none"}) /\ tsoff2 \in (IF two # "no" THEN Offsets ELSE {0})
        /\ snap \in {0, 262144}
        /\ dsbAt \in {"pre", "start", "mid", "end"}
        /\ pos = 0 /\ divisor = 0 /\ offset = 0 /\ yielded = <<>> /\ keys = 0 /\ ifaces = <<>>

\* Reader.__init__: byte order from the byte-order magic, divisor / offset from the interface description options
Open == /\ pos = 0
        /\ divisor' = Ups(resol) /\ offset' = tsoff
        /\ pos' = 1 /\ UNCHANGED <<fmt, le, resol, tsoff, extras, yielded, keys, two, resol2, tsoff2, ifaces, dsbAt, snap>>
\* Reader.__iter__: one block per step
Step == /\ pos >= 1 /\ pos <= Len(Blocks)
        /\ LET b == Blocks[pos] IN
           CASE b.kind = "IDB" -> /\ ifaces' = Append(ifaces, IF b.ifc = 1 THEN <<Ups(resol), tsoff>> ELSE <<Ups(resol2), tsoff2>>)
                                  /\ UNCHANGED <<yielded, keys>>
             [] b.kind = "EPB" -> LET par == IF PerInterface /\ b.ifc <= Len(ifaces) THEN ifaces[b.ifc] ELSE <<divisor, offset>> IN
                                  /\ yielded' = Append(yielded, [t8 |-> 8 * par[2] + b.raw \div (par[1] \div 8), id |-> b.id])
                                  /\ UNCHANGED <<keys, ifaces>>
             [] b.kind = "DSB" -> /\ keys' = (IF fmt = "pcapng" THEN keys + 1 ELSE keys) /\ UNCHANGED <<yielded, ifaces>>
             [] OTHER -> UNCHANGED <<yielded, keys, ifaces>>
        /\ pos' = pos + 1 /\ UNCHANGED <<fmt, le, resol, tsoff, extras, divisor, offset, two, resol2, tsoff2, dsbAt, snap>>
Next == Open \/ Step
Spec == Init /\ [][Next]_vars

Done == pos = Len(Blocks) + 1
\* C12: whatever the container, the reader yields the same (time, frame) sequence
YieldedIndependentOfContainer == Done => yielded = [i \in 1..NPkts |-> [t8 |-> Time(i), id |-> i]]
\* the secrets block reaches the key list wherever it stands (a legacy pcap has none)
KeysYielded == Done => keys = (IF fmt = "pcapng" THEN 1 ELSE 0)
YieldedIsPrefix == \A i \in 1..Len(yielded) : yielded[i] = [t8 |-> Time(i), id |-> i]
=============================================================================
