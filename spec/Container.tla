------------------------------ MODULE Container ------------------------------
(***************************************************************************)
(* The capture readers: dpkt_dsb.Reader (pcapng: byte order from the        *)
(* section header, if_tsresol / if_tsoffset of the first interface           *)
(* description, enhanced packet blocks yielded as (timestamp, frame),        *)
(* decryption secrets blocks yielded with ts = -1, every other block         *)
(* skipped) and dpkt.pcap.Reader behind -l.                                  *)
(* A container variant of a fixed packet list = format x byte order x        *)
(* timestamp resolution x offset x unrelated blocks at any position.         *)
(* Time is counted in eighths of a second (representable in every            *)
(* resolution of the enumeration) so that the arithmetic is exact.           *)
(***************************************************************************)
EXTENDS Naturals, Integers, Sequences, FiniteSets, TLC

CONSTANTS NPkts, Resols, Offsets, ExtraKinds

\* units per second of a resolution option
\* (scaled for TLC's 32-bit integers: 10^-6 -> 10^-4, 10^-9 -> 10^-5, 2^-20 -> 2^-14; the default equals 10^-6 as in the code)
Ups(r) == CASE r = "none" -> 10000 [] r = "d3" -> 1000 [] r = "d6" -> 10000 [] r = "d9" -> 100000
            [] r = "b10" -> 1024 [] r = "b20" -> 16384
Time(i) == 8 * 4000 + 3 * i + 1          \* capture time of packet i in eighths of a second

VARIABLES fmt, le, resol, tsoff, extras, pos, divisor, offset, yielded, keys
vars == <<fmt, le, resol, tsoff, extras, pos, divisor, offset, yielded, keys>>

\* the file: sequence of blocks [kind, raw (timestamp units), id]
Raw(i) == (Time(i) - 8 * tsoff) * (Ups(resol) \div 8)       \* what the writer stores: (time - offset) in interface units
Ex(k) == IF k \in extras THEN <<[kind |-> "OTHER", raw |-> 0, id |-> 0]>> ELSE <<>>
RECURSIVE PktBlocks(_)
PktBlocks(i) == IF i > NPkts THEN <<>> ELSE <<[kind |-> "EPB", raw |-> Raw(i), id |-> i]>> \o Ex(i + 1) \o PktBlocks(i + 1)
Blocks == Ex(0) \o <<[kind |-> "DSB", raw |-> 0, id |-> 0]>> \o Ex(1) \o PktBlocks(1)

Init == /\ fmt \in {"pcap", "pcapng"} /\ le \in BOOLEAN
        /\ resol \in (IF fmt = "pcap" THEN {"d6"} ELSE Resols)
        /\ tsoff \in (IF fmt = "pcap" THEN {0} ELSE Offsets)
        /\ extras \in (IF fmt = "pcap" THEN {{}} ELSE SUBSET ExtraKinds)
        /\ pos = 0 /\ divisor = 0 /\ offset = 0 /\ yielded = <<>> /\ keys = 0

\* Reader.__init__: byte order from the byte-order magic, divisor / offset from the interface description options
Open == /\ pos = 0
        /\ divisor' = Ups(resol) /\ offset' = tsoff
        /\ pos' = 1 /\ UNCHANGED <<fmt, le, resol, tsoff, extras, yielded, keys>>
\* Reader.__iter__: one block per step
Step == /\ pos >= 1 /\ pos <= Len(Blocks)
        /\ LET b == Blocks[pos] IN
           CASE b.kind = "EPB" -> /\ yielded' = Append(yielded, [t8 |-> 8 * offset + b.raw \div (divisor \div 8), id |-> b.id])
                                  /\ UNCHANGED keys
             [] b.kind = "DSB" -> /\ keys' = (IF fmt = "pcapng" THEN keys + 1 ELSE keys) /\ UNCHANGED yielded
             [] OTHER -> UNCHANGED <<yielded, keys>>
        /\ pos' = pos + 1 /\ UNCHANGED <<fmt, le, resol, tsoff, extras, divisor, offset>>
Next == Open \/ Step
Spec == Init /\ [][Next]_vars

Done == pos = Len(Blocks) + 1
\* C12: whatever the container, the reader yields the same (time, frame) sequence
YieldedIndependentOfContainer == Done => yielded = [i \in 1..NPkts |-> [t8 |-> Time(i), id |-> i]]
YieldedIsPrefix == \A i \in 1..Len(yielded) : yielded[i] = [t8 |-> Time(i), id |-> i]
=============================================================================
