------------------------------- MODULE Dissect -------------------------------
(***************************************************************************)
(* The layout of one UDP datagram of QUIC v1 (RFC 9000 sections 12.2, 17;   *)
(* RFC 9001 section 5.4) as a generator automaton, and the dissector loop    *)
(* of QuicSession.handle_packet / quic_dissector.extract_quic_packet as a    *)
(* variant argument: each iteration removes exactly one packet - header,      *)
(* packet number field and protected payload - from the front of the         *)
(* datagram, so the remaining length strictly decreases, every byte belongs   *)
(* to exactly one packet, and the header-protection sample of every packet    *)
(* lies inside that packet.                                                   *)
(*                                                                           *)
(* A symbol is one packet: its type, the two connection-ID lengths, the       *)
(* widths of its variable-length integers (token length, Length; non-minimal  *)
(* widths included), the token length, the packet-number length and the       *)
(* size of the protected payload (ciphertext + tag).  Packets with a Length   *)
(* field (Initial, 0-RTT, Handshake) can be followed by another packet;       *)
(* Retry, Version Negotiation and 1-RTT packets extend to the end of the      *)
(* datagram.  Behind a packet with a Length field the datagram may be filled  *)
(* with zero bytes (seen in captures; the code stops at an all-zero rest).    *)
(*                                                                           *)
(* TLC enumerates all datagrams of <= MaxPackets symbols and prints them for  *)
(* the conformance step, which builds them with the reference encoders and    *)
(* real header protection and compares what the real dissector returns field  *)
(* by field (checks/dissect.py).                                              *)
(***************************************************************************)
EXTENDS Naturals, Sequences, FiniteSets, TLC, Json

CONSTANTS MaxPackets, CidLens, TokLens, Widths, PnLens, Pays, Zeros, EmitOn

Types == {"initial", "zrtt", "hs", "retry", "vn", "short"}
HasLen(t) == t \in {"initial", "zrtt", "hs"}            \* carries a Length field: the only packets another one can follow
HasPn(t)  == t \in {"initial", "zrtt", "hs", "short"}   \* protected packets: packet number field + sample

MinWidth(v) == IF v < 64 THEN 1 ELSE IF v < 16384 THEN 2 ELSE IF v < 1073741824 THEN 4 ELSE 8
Fits(v, w) == w >= MinWidth(v)

\* bytes in front of the packet number field (= pn_offset of the dissector)
PnOffset(s) ==
  CASE s.t = "short"   -> 1 + s.dl
    [] s.t = "initial" -> 7 + s.dl + s.sl + s.tw + s.tl + s.lw
    [] s.t \in {"zrtt", "hs"} -> 7 + s.dl + s.sl + s.lw
    [] OTHER -> 7 + s.dl + s.sl
LenVal(s) == s.pn + s.pay                                \* the value of the Length field (RFC 9000 17.2: packet number + payload)
EncLen(s) ==
  CASE HasPn(s.t)     -> PnOffset(s) + s.pn + s.pay
    [] s.t = "retry"  -> 7 + s.dl + s.sl + s.tl + 16     \* retry token + integrity tag
    [] s.t = "vn"     -> 7 + s.dl + s.sl + 4 * s.tl      \* tl supported versions (>= 1)

Sym == { s \in [t : Types, dl : CidLens, sl : CidLens, tw : Widths, tl : TokLens, lw : Widths, pn : PnLens, pay : Pays] :
           /\ (s.t = "initial" => Fits(s.tl, s.tw))
           /\ (s.t # "initial" => s.tw = 1)
           /\ (s.t \notin {"initial", "retry", "vn"} => s.tl = 0)
           /\ (s.t = "vn" => s.tl \in 1..16)
           /\ (HasLen(s.t) => Fits(LenVal(s), s.lw))
           /\ (~HasLen(s.t) => s.lw = 1)
           /\ (s.t = "short" => s.sl = 0)                 \* a short header has no source connection ID
           /\ (~HasPn(s.t) => s.pn = 1 /\ s.pay = 20)
           /\ (HasPn(s.t) => s.pn + s.pay >= 20) }        \* RFC 9001 5.4.2: enough ciphertext for the sample

VARIABLES seq, rest, closed, zeros
vars == <<seq, rest, closed, zeros>>

RECURSIVE Total(_)
Total(q) == IF q = <<>> THEN 0 ELSE EncLen(Head(q)) + Total(Tail(q))
RECURSIVE Consumed(_, _)
Consumed(q, n) == IF n = 0 THEN 0 ELSE EncLen(q[n]) + Consumed(q, n - 1)

Add == /\ ~closed /\ Len(seq) < MaxPackets
       /\ \E s \in Sym :
            /\ seq' = Append(seq, s)
            /\ closed' = ~HasLen(s.t)
       /\ UNCHANGED <<rest, zeros>>
Close == /\ ~closed /\ seq # <<>> /\ closed' = TRUE
         /\ zeros' \in Zeros                               \* zero fill behind the last packet with a Length field
         /\ UNCHANGED <<seq, rest>>
\* the dissector loop: one packet per iteration (extract_quic_packet cuts total_packet_len bytes off the front)
Dissect == /\ closed /\ rest < Len(seq)
           /\ rest' = rest + 1
           /\ UNCHANGED <<seq, closed, zeros>>
\* the all-zero rest ends the loop without a packet
StopAtZeros == /\ closed /\ rest = Len(seq) /\ zeros > 0
               /\ zeros' = 0
               /\ UNCHANGED <<seq, rest, closed>>
Init == seq = <<>> /\ rest = 0 /\ closed = FALSE /\ zeros = 0
Next == Add \/ Close \/ Dissect \/ StopAtZeros
Spec == Init /\ [][Next]_vars

EveryPacketConsumes == \A i \in 1..Len(seq) : EncLen(seq[i]) >= 21
RestStrictlyDecreases == [][(rest' # rest) => Total(seq) - Consumed(seq, rest') < Total(seq) - Consumed(seq, rest)]_vars
EveryByteOnce == (closed /\ rest = Len(seq)) => Consumed(seq, rest) = Total(seq)
OnlyLastOpenEnded == \A i \in 1..(Len(seq) - 1) : HasLen(seq[i].t)
SampleInside == \A i \in 1..Len(seq) : HasPn(seq[i].t) => PnOffset(seq[i]) + 4 + 16 <= EncLen(seq[i])
LengthCovers == \A i \in 1..Len(seq) : HasLen(seq[i].t) => EncLen(seq[i]) = PnOffset(seq[i]) + LenVal(seq[i])
ZerosOnlyBehindLength == (zeros > 0) => (seq # <<>> /\ HasLen(seq[Len(seq)].t))

Emit == (EmitOn /\ closed /\ rest = 0) => PrintT(ToJson([seq |-> seq, zeros |-> zeros]))
View == <<seq, closed, rest, zeros>>
=============================================================================
