------------------------------- MODULE Reasm -------------------------------
(***************************************************************************)
(* TCP reassembly and TLS record framing of ONE direction of a TLS          *)
(* connection, as implemented by Session.handle_packet (duplicate           *)
(* suppression by sequence number), Session.extract_client_buf /            *)
(* extract_server_buf (sort by sequence number, contiguity test, two-pass   *)
(* record framing, provenance = overlap test) -- tlexport/session.py.       *)
(*                                                                          *)
(* The unit of length is a "cell".  A record is H header cells (H = 5: the  *)
(* code's `< 5` test is byte exact, so header cells are bytes) followed by  *)
(* Stream[k] body cells (the concretizer maps body cells to equal slices    *)
(* of the real record body).                                                *)
(*                                                                          *)
(* Environment = sender + network + capture point, as small actions:        *)
(*   SendInOrder  next segment of 1..MaxSeg cells is captured               *)
(*   Hold         next segment is delayed in the network (reordering)       *)
(*   ReleaseHeld  a delayed segment is captured                             *)
(*   Dup          an already captured segment is captured again             *)
(* Named deviations of the code (known findings), switched by constants:    *)
(*   KF_GapAccept  a segment that is not the continuation of the data       *)
(*                 parsed so far arrives while nothing anchors the buffer:  *)
(*                 the code frames it on its own                            *)
(*                 (only when the head of the buffer is a record boundary,  *)
(*                 or a bogus header read from mid-record bytes happens to  *)
(*                 fit -- see BogusOver; otherwise the code WAITS, is right,*)
(*                 and the step is an ordinary "midgap" step)               *)
(*   KF_SeqWrap    the 32-bit sequence number wraps between two segments    *)
(*                 that sit in the buffer together: sort/contiguity ignore  *)
(*                 the wrap                                                 *)
(***************************************************************************)
EXTENDS Naturals, Sequences, FiniteSets, SequencesExt, FiniteSetsExt, TLC, Json

CONSTANTS StreamDef,   \* sequence of body sizes (cells) of the records of this direction
          H,           \* header cells (5)
          MaxHeld, MaxDup, MaxSeg,
          AllowGap, AllowWrap,   \* enable the KF_* deviations
          AllowOverlap,          \* environment: a retransmission may start INSIDE an already captured segment (other packetization, or a
                                 \* keep-alive probe re-sending the last byte).  Duplicate suppression is by starting sequence number only, so
                                 \* the code takes it as new data: the direction stalls.  C05 quantifies over EXACT duplicates: documented
                                 \* deviation outside the property, TLC shows which contract clause it breaks.
          AllowMidGap,           \* environment: a segment may be captured ahead of the head of ITS OWN record (buffer anchored mid-record)
          BogusOver,             \* data: the 16-bit "length" the code reads from mid-record bytes exceeds all that the direction still sends
                                 \* (the common case for ciphertext; the concretizer checks the actual bytes).  FALSE: it may fit.
          Mod, IsnSet,           \* scaled sequence space (2^32 in the code) and initial sequence numbers
          EmitOn                 \* print behaviours as JSON at quiescence (generation configs)

Stream == StreamDef
NRec == Len(Stream)
RecLen(k) == H + Stream[k]
RECURSIVE StartOf(_)
StartOf(k) == IF k = 1 THEN 0 ELSE StartOf(k - 1) + RecLen(k - 1)
Total  == StartOf(NRec) + RecLen(NRec)
Bounds == { StartOf(k) : k \in 1..NRec }
RecAt(off) == CHOOSE k \in 1..NRec : StartOf(k) = off
EndOf(k) == StartOf(k) + RecLen(k)

ASSUME Total < Mod

VARIABLES isn, sent, held, captured, dups,          \* environment
          seen, buf, released, meta, garbage,        \* Session state of this direction
          hist                                       \* captured segments in capture order (history)

envv  == <<isn, sent, held, captured, dups>>
implv == <<seen, buf, released, meta, garbage>>
vars  == <<envv, implv, hist>>

Seg(st, ln) == [st |-> st, ln |-> ln]
Key(sg) == (isn + sg.st) % Mod                      \* packet.seq

(* ---------------- the code ---------------- *)
SortByKey(b) == SetToSortSeq(b, LAMBDA x, y : Key(x) < Key(y))        \* *_packet_buffer.sort(key=seq)
Contig(s) == \A i \in 1..(Len(s) - 1) : Key(s[i]) + s[i].ln = Key(s[i + 1])

RECURSIVE Parse(_, _, _)                             \* the two framing loops of extract_*_buf
Parse(off, hi, acc) ==
  IF off = hi THEN [r |-> "done", recs |-> acc]
  ELSE IF hi - off < H THEN [r |-> "need", recs |-> acc]
  ELSE IF off \notin Bounds THEN                                  \* header read from mid-record bytes:
       IF BogusOver THEN [r |-> "need", recs |-> acc]               \*   first loop overshoots -> need_data
       ELSE [r |-> "garbage", recs |-> acc]                         \*   may land on the buffer end -> garbage handed on
  ELSE LET k == RecAt(off) IN
       IF EndOf(k) > hi THEN [r |-> "need", recs |-> acc]
       ELSE Parse(EndOf(k), hi, Append(acc, k))

Overlap(segs, k) == { sg \in segs : sg.st < EndOf(k) /\ sg.st + sg.ln > StartOf(k) }   \* packet_ranges test

Handle(sg) ==                                        \* Session.handle_packet ; extract_*_buf
  IF Key(sg) \in seen THEN UNCHANGED implv
  ELSE LET nb == buf \cup {sg}
           s  == SortByKey(nb)
       IN /\ seen' = seen \cup {Key(sg)}
          /\ IF ~Contig(s) THEN buf' = nb /\ UNCHANGED <<released, meta, garbage>>
             ELSE LET lo == s[1].st
                      hi == s[Len(s)].st + s[Len(s)].ln
                      p  == Parse(lo, hi, <<>>)
                  IN CASE p.r = "done" ->
                            /\ buf' = {}
                            /\ released' = released \o p.recs
                            /\ meta' = meta \o [i \in 1..Len(p.recs) |-> Overlap(nb, p.recs[i])]
                            /\ UNCHANGED garbage
                       [] p.r = "need" -> buf' = nb /\ UNCHANGED <<released, meta, garbage>>
                       [] OTHER -> buf' = nb /\ garbage' = TRUE /\ UNCHANGED <<released, meta>>

(* ---------------- classification of a capture step ---------------- *)
NextOff == IF released = <<>> THEN 0 ELSE EndOf(released[Len(released)])
MinSt(b) == Min({ x.st : x \in b })
WrapIn(b) == \E x, y \in b : x.st < y.st /\ Key(x) > Key(y)
Ahead(sg)  == Key(sg) \notin seen /\ MinSt(buf \cup {sg}) # NextOff            \* buffer not anchored at the next expected byte
IsMidGap(sg) == Ahead(sg) /\ BogusOver /\ MinSt(buf \cup {sg}) \notin Bounds    \* ... anchored mid-record and the bogus length overshoots: code waits
IsGap(sg)  == Ahead(sg) /\ ~IsMidGap(sg)
IsOverlap(sg) == Key(sg) \notin seen /\ \E c \in captured : c.st < sg.st /\ sg.st < c.st + c.ln
IsWrap(sg) == Key(sg) \notin seen /\ WrapIn(buf \cup {sg})
Kind(sg) == IF IsOverlap(sg) THEN "overlap" ELSE IF IsGap(sg) THEN "gap" ELSE IF IsWrap(sg) THEN "wrap" ELSE IF IsMidGap(sg) THEN "midgap" ELSE "ok"
Allowed(sg) == IsOverlap(sg) \/ ((AllowGap \/ ~IsGap(sg)) /\ (AllowWrap \/ ~IsWrap(sg)) /\ (AllowMidGap \/ ~IsMidGap(sg)))

Capture(sg, isdup) ==
  /\ Allowed(sg)
  /\ Handle(sg)
  /\ captured' = (IF isdup THEN captured ELSE captured \cup {sg})     \* first captures only: a retransmission is not provenance
  /\ hist' = Append(hist, [st |-> sg.st, ln |-> sg.ln, dup |-> isdup, kf |-> Kind(sg),
                            head |-> IF Key(sg) \in seen THEN sg.st ELSE MinSt(buf \cup {sg})])

(* ---------------- environment ---------------- *)
Init == /\ isn \in IsnSet /\ sent = 0 /\ held = {} /\ captured = {} /\ dups = 0
        /\ seen = {} /\ buf = {} /\ released = <<>> /\ meta = <<>> /\ garbage = FALSE
        /\ hist = <<>>

SendInOrder == \E n \in 1..MaxSeg :
  /\ sent + n <= Total
  /\ Capture(Seg(sent, n), FALSE)
  /\ sent' = sent + n /\ UNCHANGED <<isn, held, dups>>

Hold == \E n \in 1..MaxSeg :
  /\ sent + n <= Total /\ Cardinality(held) < MaxHeld
  /\ held' = held \cup {Seg(sent, n)} /\ sent' = sent + n
  /\ UNCHANGED <<isn, captured, dups, implv, hist>>

ReleaseHeld == \E sg \in held :
  /\ Capture(sg, FALSE) /\ held' = held \ {sg} /\ UNCHANGED <<isn, sent, dups>>

Dup == /\ dups < MaxDup
       /\ \E sg \in captured : Capture(sg, TRUE) /\ dups' = dups + 1 /\ UNCHANGED <<isn, sent, held>>

\* a retransmission that coalesces two adjacent already captured segments (same bytes, different packetization): TCP may do that;
\* it starts at an already seen sequence number and carries nothing new
DupCoalesced == /\ dups < MaxDup
                /\ \E a, b \in captured : a.st + a.ln = b.st /\ a.ln + b.ln <= 2 * MaxSeg
                      /\ Capture(Seg(a.st, a.ln + b.ln), TRUE) /\ dups' = dups + 1 /\ UNCHANGED <<isn, sent, held>>

\* a retransmission of the tail of an already captured segment (starts inside it)
PartialRetransmit == /\ AllowOverlap /\ dups < MaxDup
           /\ \E a \in captured : a.ln >= 2 /\ \E k \in 1..(a.ln - 1) :
                 /\ Capture(Seg(a.st + k, a.ln - k), TRUE) /\ dups' = dups + 1 /\ UNCHANGED <<isn, sent, held>>

Next == SendInOrder \/ Hold \/ ReleaseHeld \/ Dup \/ DupCoalesced \/ PartialRetransmit
Spec == Init /\ [][Next]_vars

(* ---------------- contract (what any correct reassembler guarantees) ---------------- *)
Quiescent == sent = Total /\ held = {}
InOrderPrefix(r) == r = [i \in 1..Len(r) |-> i]

\* C05 / C08: what has been handed to the record handler is always the framing of a prefix of the stream
ReleasedIsPrefix == InOrderPrefix(released) /\ ~garbage
\* C05: once everything the sender sent has been captured, every record has been handed on exactly once
ReleasedAllAtQuiescence == Quiescent => (released = [i \in 1..NRec |-> i] /\ buf = {})
\* C07: provenance of a record = exactly the captured segments overlapping its byte range
MetaIsOverlapSet == \A i \in 1..Len(released) :
                      (released[i] \in 1..NRec) => meta[i] = Overlap(captured, released[i])
\* C08 as an action property: a further captured packet never retracts or alters what was released
ReleaseMonotone == [][IsPrefix(released, released') /\ IsPrefix(meta, meta')]_vars

TypeOK == /\ sent \in 0..Total /\ dups \in 0..MaxDup /\ garbage \in BOOLEAN
          /\ \A sg \in held \cup captured \cup buf : sg.st \in 0..Total /\ sg.ln \in 1..(2 * MaxSeg)

(* ---------------- views / behaviour export ---------------- *)
View == <<envv, implv>>                               \* hides hist in exhaustive runs

Emit == (EmitOn /\ Quiescent /\ dups = MaxDup) =>
          PrintT(ToJson([isn |-> isn, hist |-> hist, released |-> released,
                         meta |-> [i \in 1..Len(meta) |-> SetToSortSeq({ x.st : x \in meta[i] }, <)],
                         garbage |-> garbage, stuck |-> buf # {}]))
=============================================================================
