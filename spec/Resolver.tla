------------------------------ MODULE Resolver ------------------------------
(***************************************************************************)
(* The cipher-suite resolver as a component that is QUERIED OVER TIME: once *)
(* per session, in capture order, with repetitions, across the sessions of  *)
(* one capture and across in-process runs.  Suites.tla says what the answer *)
(* to one query is; this module says that it is a function of the code      *)
(* point alone -- whatever was asked before (C14: "for all inputs" includes *)
(* all histories).  Classes of code points: supported ones (distinct        *)
(* parameter sets) and unsupported ones (registered but not implemented, or *)
(* unregistered).  TLC enumerates every query sequence up to MaxLen over    *)
(* the classes; the check maps classes to concrete code points and replays  *)
(* each sequence into the real split_cipher_suite in one process.           *)
(***************************************************************************)
EXTENDS Naturals, Sequences, TLC, Json

CONSTANTS Sup, Unsup, MaxLen, EmitOn

VARIABLES hist, answers
vars == <<hist, answers>>

Answer(c) == IF c \in Sup THEN c ELSE "unsupported"      \* Suites!Den, abstracted to the class

Init == hist = <<>> /\ answers = <<>>
Query(c) == /\ Len(hist) < MaxLen
            /\ hist' = Append(hist, c) /\ answers' = Append(answers, Answer(c))
Next == \E c \in Sup \cup Unsup : Query(c)
Spec == Init /\ [][Next]_vars

HistoryIndependent == \A i, j \in 1..Len(hist) : hist[i] = hist[j] => answers[i] = answers[j]
UnsupportedNeverGuessed == \A i \in 1..Len(hist) : hist[i] \in Unsup => answers[i] = "unsupported"
Emit == (EmitOn /\ Len(hist) = MaxLen) => PrintT(ToJson([q |-> hist]))
=============================================================================
