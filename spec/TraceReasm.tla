----------------------------- MODULE TraceReasm -----------------------------
(***************************************************************************)
(* Trace validation of the reassembly hooks (`feed`, `release`) recorded    *)
(* from the real Session against the CONTRACT of Reasm.tla:                 *)
(*   - records are handed to the record handler in stream order, each once  *)
(*   - a record is handed on only when all its bytes have been fed          *)
(*   - its provenance is exactly the set of fed segments overlapping it     *)
(* Offsets are stream offsets (sequence number minus the ISN known to the   *)
(* harness, modulo 2^32), lengths are bytes.  Many traces per TLC run.      *)
(***************************************************************************)
EXTENDS Naturals, Sequences, FiniteSets, TLC, Json, FiniteSetsExt

Traces == JsonDeserialize("traces.json")     \* [ [id, recs (seq of record lengths), events] ]
N == Len(Traces)

VARIABLES tid, l, fed, k
vars == <<tid, l, fed, k>>

T  == Traces[tid]
Ev == T.events[l]

RECURSIVE StartOfRec(_, _)
StartOfRec(recs, i) == IF i = 1 THEN 0 ELSE StartOfRec(recs, i - 1) + recs[i - 1]

RECURSIVE Covered(_, _, _)
Covered(f, a, b) ==            \* [a, b) is covered by the fed intervals
  IF a >= b THEN TRUE
  ELSE \E iv \in f : iv[1] <= a /\ iv[1] + iv[2] > a /\ Covered(f, iv[1] + iv[2], b)

Overlapping(f, a, b) == { iv[1] : iv \in { x \in f : x[1] < b /\ x[1] + x[2] > a } }

Feed == /\ Ev.e = "feed"
        /\ fed' = fed \cup {<<Ev.off, Ev.ln>>}
        /\ UNCHANGED k

Release == /\ Ev.e = "release"
           /\ k < Len(T.recs)
           /\ LET i == k + 1
                  a == StartOfRec(T.recs, i)
                  b == a + T.recs[i]
              IN /\ Ev.len = T.recs[i]                          \* the next record of the stream, whole
                 /\ Covered(fed, a, b)                           \* all of its bytes were captured before
                 /\ { Ev.offs[j] : j \in 1..Len(Ev.offs) } = Overlapping(fed, a, b)   \* provenance (C07)
           /\ k' = k + 1 /\ UNCHANGED fed

Step == /\ l <= Len(T.events) /\ (Feed \/ Release) /\ l' = l + 1 /\ UNCHANGED tid

Done == l = Len(T.events) + 1
NextTrace == /\ (Done => TLCSet(1, TLCGet(1) \cup {T.id}))
             /\ TLCSet(2, [TLCGet(2) EXCEPT ![tid] = IF @ > l THEN @ ELSE l])
             /\ IF tid < N THEN tid' = tid + 1 /\ l' = 1 /\ fed' = {} /\ k' = 0
                ELSE UNCHANGED vars

Init == /\ tid = 1 /\ l = 1 /\ fed = {} /\ k = 0
        /\ TLCSet(1, {}) /\ TLCSet(2, [i \in 1..N |-> 0])
Next == Step \/ (tid <= N /\ NextTrace /\ (tid < N \/ ~Done \/ TRUE))
Spec == Init /\ [][Next]_vars

Post == PrintT(ToJson([accepted |-> TLCGet(1), progress |-> TLCGet(2)]))
=============================================================================
