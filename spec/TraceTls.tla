------------------------------ MODULE TraceTls ------------------------------
(***************************************************************************)
(* Trace validation of the Decryptor hooks (`decrypt`, `keyswitch`) against *)
(* the CONTRACT of the TLS record layer as seen by a passive decryptor:     *)
(*  - every successful decrypt consumes a protected record of its direction *)
(*    later than all records consumed before (stream order, never twice),   *)
(*    under the key epoch and implicit sequence number / CBC residue the    *)
(*    SENDER used, and yields exactly that record's plaintext;              *)
(*  - a decrypt may fail only on records the log has no key for             *)
(*    (TLS 1.3 handshake records when the handshake secrets are missing);   *)
(*  - the handshake->application key switch of a direction happens exactly  *)
(*    once, right after the record carrying that direction's Finished;      *)
(*  - in a complete healthy capture every application record is consumed.   *)
(* Ground truth (`recs`) comes from the reference endpoint that built the   *)
(* capture.  Many traces per TLC run.                                       *)
(***************************************************************************)
EXTENDS Naturals, Sequences, FiniteSets, TLC, Json

Traces == JsonDeserialize("traces.json")
N == Len(Traces)
Dir == {"c", "s"}

VARIABLES tid, l, nxt, mayswitch, switched
vars == <<tid, l, nxt, mayswitch, switched>>

T  == Traces[tid]
Ev == T.events[l]
RecsOf(d) == T.recs[d]

Decrypt ==
  /\ Ev.ev = "decrypt"
  /\ LET d == Ev.dir  rs == RecsOf(d) IN
     IF Ev.ok
     THEN \E k \in nxt[d]..Len(rs) :
            /\ rs[k].ct = Ev.ct                         \* which record was handed to the decryptor
            /\ Ev.ph = rs[k].ph /\ Ev.plen = rs[k].plen \* ... and it was really decrypted (true plaintext)
            /\ (T.useSeq => Ev.seq = rs[k].seq)         \* implicit sequence number equals the sender's
            /\ (T.useChain => Ev.chain = rs[k].chain)   \* CBC residue equals the previous ciphertext's last block
            /\ Ev.epoch = rs[k].ep                      \* key epoch equals the sender's
            /\ nxt' = [nxt EXCEPT ![d] = k + 1]
            /\ mayswitch' = [mayswitch EXCEPT ![d] = rs[k].fin13]
            /\ UNCHANGED switched
     ELSE /\ \E k \in 1..Len(rs) : rs[k].ct = Ev.ct /\ rs[k].mayFail
          /\ (T.useSeq => Ev.seq_after = Ev.seq)        \* a failed record consumes no sequence number
          /\ UNCHANGED <<nxt, mayswitch, switched>>

KeySwitch ==
  /\ Ev.ev = "keyswitch"
  /\ mayswitch[Ev.dir] /\ ~switched[Ev.dir]
  /\ Ev.epoch = "app" /\ Ev.seq_after = 0
  /\ switched' = [switched EXCEPT ![Ev.dir] = TRUE]
  /\ mayswitch' = [mayswitch EXCEPT ![Ev.dir] = FALSE]
  /\ UNCHANGED nxt

Step == /\ l <= Len(T.events) /\ (Decrypt \/ KeySwitch) /\ l' = l + 1 /\ UNCHANGED tid

AllAppConsumed == \A d \in Dir : \A k \in 1..Len(RecsOf(d)) : RecsOf(d)[k].app => k < nxt[d]
Done == l = Len(T.events) + 1 /\ (T.complete => AllAppConsumed)
Reset == /\ l' = 1 /\ nxt' = [d \in Dir |-> 1] /\ mayswitch' = [d \in Dir |-> FALSE] /\ switched' = [d \in Dir |-> FALSE]
NextTrace == /\ (Done => TLCSet(1, TLCGet(1) \cup {T.id}))
             /\ TLCSet(2, [TLCGet(2) EXCEPT ![tid] = IF @ > l THEN @ ELSE l])
             /\ IF tid < N THEN tid' = tid + 1 /\ Reset ELSE UNCHANGED vars

Init == /\ tid = 1 /\ l = 1 /\ nxt = [d \in Dir |-> 1] /\ mayswitch = [d \in Dir |-> FALSE] /\ switched = [d \in Dir |-> FALSE]
        /\ TLCSet(1, {}) /\ TLCSet(2, [i \in 1..N |-> 0])
Next == Step \/ NextTrace
Spec == Init /\ [][Next]_vars
Post == PrintT(ToJson([accepted |-> TLCGet(1), progress |-> TLCGet(2)]))
=============================================================================
